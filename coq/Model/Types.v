(* Data types of the executable model of broadbean (definitions only). *)
From Coq Require Import String Ascii List ZArith QArith Bool.
From BB Require Import Base.Names Base.Num.
Import ListNotations.

(* Python values that occur as arguments / durations / settings *)
Inductive val := VNum (q : Q) | VStr (x : str) | VNone.

Definition str_eqb (a b : str) : bool := if list_eq_dec ascii_dec a b then true else false.

Definition val_eqb (a b : val) : bool :=       (* Python == on these values *)
  match a, b with
  | VNum x, VNum y => Qeq_bool x y
  | VStr x, VStr y => str_eqb x y
  | VNone, VNone => true
  | _, _ => false
  end.

(* pulse functions known to the model: four PulseAtoms, the special string "waituntil",
   and three user-supplied functions of 1, 2 and 4 user arguments (harness/userfuncs.py) *)
Inductive fn := Framp | Fsine | Fgauss | Fgsc | Fwait | Fua | Fub | Fuc.

Definition fn_eqb (a b : fn) : bool :=
  match a, b with
  | Framp, Framp | Fsine, Fsine | Fgauss, Fgauss | Fgsc, Fgsc | Fwait, Fwait
  | Fua, Fua | Fub, Fub | Fuc, Fuc => true
  | _, _ => false
  end.

Definition S_ (x : string) : str := list_ascii_of_string x.

Definition fn_name (f : fn) : str :=            (* func.__name__ / the string itself *)
  match f with
  | Framp => S_ "ramp" | Fsine => S_ "sine" | Fgauss => S_ "gaussian"
  | Fgsc => S_ "gaussian_smooth_cutoff" | Fwait => S_ "waituntil"
  | Fua => S_ "ua" | Fub => S_ "ub2" | Fuc => S_ "uc"
  end.

Definition fn_params (f : fn) : list str :=      (* inspect.signature(f).parameters *)
  match f with
  | Framp => [S_ "start"; S_ "stop"; S_ "SR"; S_ "npts"]
  | Fsine => [S_ "freq"; S_ "ampl"; S_ "off"; S_ "phase"; S_ "SR"; S_ "npts"]
  | Fgauss | Fgsc => [S_ "ampl"; S_ "sigma"; S_ "mu"; S_ "offset"; S_ "SR"; S_ "npts"]
  | Fwait => []
  | Fua => [S_ "x"; S_ "SR"; S_ "npts"]
  | Fub => [S_ "a"; S_ "b"; S_ "SR"; S_ "npts"]
  | Fuc => [S_ "p"; S_ "q"; S_ "r"; S_ "s"; S_ "SR"; S_ "npts"]
  end.

Definition fn_arity (f : fn) : nat :=            (* number of positional user arguments *)
  match f with Fwait => 1 | _ => length (fn_params f) - 2 end.

Definition fn_descr (f : fn) : str :=            (* description["function"] *)
  match f with
  | Fwait => S_ "waituntil"
  | Fua | Fub | Fuc => S_ "function " ++ fn_name f
  | _ => S_ "function PulseAtoms." ++ fn_name f
  end.

(* exception classes *)
Inductive err :=
  EValue | EKey | EType | EIndex | EAttr | EZeroDiv | ESegDur | EElemDur | ESequencing
| ESeqConsistency | ESeqCompat | ESpecIncons | EMissingFreq | ENotImpl.

Inductive result (A : Type) := Ok (a : A) | Err (e : err).
Arguments Ok {A} a.
Arguments Err {A} e.

Definition bind {A B} (r : result A) (f : A -> result B) : result B :=
  match r with Ok a => f a | Err e => Err e end.
Notation "'do' x <- r ; k" := (bind r (fun x => k)) (at level 200, x pattern, r at level 100, k at level 200).

Definition mspec := (Q * Q)%type.              (* marker spec (time or delay, length) *)

(* BluePrint: the parallel lists, the absolute marker lists and the sample rate *)
Record bp := mkBp {
  names : list str;
  funs : list fn;
  args : list (list val);
  durs : list val;                              (* VNone for waituntil *)
  sm1 : list mspec;
  sm2 : list mspec;
  am1 : list mspec;
  am2 : list mspec;
  sr : val                                      (* VNone when not set *)
}.

Definition bp_empty : bp := mkBp [] [] [] [] [] [] [] [] VNone.

(* channel ids *)
Inductive chan := CInt (z : Z) | CStr (x : str).
Definition chan_eqb (a b : chan) : bool :=
  match a, b with
  | CInt x, CInt y => Z.eqb x y
  | CStr x, CStr y => str_eqb x y
  | _, _ => false
  end.

(* run-length encoded array: (value, count) *)
Definition rle := list (Q * Z).

Inductive chkind :=
| KBp (b : bp)
| KArr (arrs : list (str * rle)) (asr : option val). (* insertion-ordered dict incl. "wfm"; its SR (None: key missing) *)

Record chentry := mkCh { ckind : chkind; cflags : option (list Z) }.

Record elem := mkEl { edata : list (chan * chentry) }.
Definition el_empty : elem := mkEl [].

(* sequencing dict of one position *)
Record sqing := mkSq { twait : Z; nrep : Z; jump_input : Z; jump_target : Z; goto : Z }.
Definition sq_default : sqing := mkSq 0 1 0 0 0.

(* awgspecs: insertion-ordered dict; the key is the literal Python key string *)
Inductive specval :=
| SVal (v : val)
| SFilt (kind : str) (order : Z) (f_cut tau : val).

Record seqT (E : Type) := mkSeq {
  sdata : list (Z * E);
  sseq : list (Z * sqing);
  sspecs : list (str * specval);
  sname : str
}.
Arguments mkSeq {E}.
Arguments sdata {E}.
Arguments sseq {E}.
Arguments sspecs {E}.
Arguments sname {E}.

Definition subseq := seqT elem.
Inductive entry := EElem (e : elem) | ESub (s : subseq).
Definition seq := seqT entry.
Definition seq_empty : seq := mkSeq [] [] [] [].

(* generic association-list helpers (insertion-ordered dicts) *)
Section Assoc.
Context {K V : Type} (eqb : K -> K -> bool).
Fixpoint alookup (k : K) (l : list (K * V)) : option V :=
  match l with
  | [] => None
  | (k', v) :: t => if eqb k k' then Some v else alookup k t
  end.
(* d[k] = v : overwrite in place or append *)
Fixpoint aset (k : K) (v : V) (l : list (K * V)) : list (K * V) :=
  match l with
  | [] => [(k, v)]
  | (k', v') :: t => if eqb k k' then (k, v) :: t else (k', v') :: aset k v t
  end.
Definition akeys (l : list (K * V)) : list K := map fst l.
Definition avals (l : list (K * V)) : list V := map snd l.
End Assoc.
