(* Executable model of the description properties, the JSON round trip and the *_from_description readers. *)
From Coq Require Import String Ascii List ZArith QArith Bool DecimalString.
From BB Require Import Base.Names Base.Num Base.PyList Model.Types Model.Blueprint Model.Forge
  Model.Element Model.PyVal Model.Sequence.
Import ListNotations.
Open Scope Z_scope.

(* f"segment_{k:02d}" *)
Definition seg_key (k : Z) : str :=
  S_ "segment_" ++ (if k <? 10 then S_ "0" else []) ++ str_of_Z k.

Definition zipd (ks : list str) (vs : list val) : list (pv * pv) :=
  map (fun p : str * val => (PStr (fst p), pv_of_val (snd p))) (combine ks vs).

Fixpoint bp_descr_segs (k : Z) (ns : list str) (fs : list fn) (ars : list (list val)) (ds : list val)
  : list (pv * pv) :=
  match ns, fs, ars, ds with
  | n :: ns', f :: fs', a :: ars', d :: ds' =>
      (PStr (seg_key k),
       PDict [(pstr "name", PStr n); (pstr "function", PStr (fn_descr f)); (pstr "durations", pv_of_val d);
              (pstr "arguments",
               if fn_eqb f Fwait then PDict [(pstr "waittime", PTuple (map pv_of_val a))]
               else PDict (zipd (fn_params f) a))])
      :: bp_descr_segs (k + 1) ns' fs' ars' ds'
  | _, _, _, _ => []
  end.

(* BluePrint.description *)
Definition bp_descr (b : bp) : pv :=
  PDict (bp_descr_segs 1 (names b) (funs b) (args b) (durs b)
         ++ [(pstr "marker1_abs", PList (map pv_of_mspec (am1 b))); (pstr "marker2_abs", PList (map pv_of_mspec (am2 b)));
             (pstr "marker1_rel", PList (map pv_of_mspec (sm1 b))); (pstr "marker2_rel", PList (map pv_of_mspec (sm2 b)))]).

(* Element.description; flags on an "array" string raise TypeError *)
Definition el_descr (e : elem) : result pv :=
  do l <- mapM (fun p : chan * chentry =>
            let key := PStr (str_of_chan (fst p)) in
            match ckind (snd p), cflags (snd p) with
            | KBp b, None => Ok (key, bp_descr b)
            | KBp b, Some fl =>
                match bp_descr b with
                | PDict d => Ok (key, PDict (d ++ [(pstr "flags", PList (map PInt fl))]))
                | x => Ok (key, x)
                end
            | KArr _ _, None => Ok (key, pstr "array")
            | KArr _ _, Some _ => Err EType
            end) (edata e);
  Ok (PDict l).

Definition pv_of_specval (v : specval) : pv :=
  match v with
  | SVal x => pv_of_val x
  | SFilt k o f t => PDict [(pstr "kind", PStr k); (pstr "order", PInt o); (pstr "f_cut", pv_of_val f); (pstr "tau", pv_of_val t)]
  end.
Definition specs_descr (l : list (str * specval)) : pv :=
  PDict (map (fun p : str * specval => (PStr (fst p), pv_of_specval (snd p))) l).

Definition sqing_descr (q : sqing) : pv :=
  PDict [(pstr "Wait trigger", PInt (twait q)); (pstr "Repeat", PInt (nrep q)); (pstr "jump_input", PInt (jump_input q));
         (pstr "jump_target", PInt (jump_target q)); (pstr "Go to", PInt (goto q))].

Section SeqDescr.
Context {E : Type} (edescr : E -> result pv).
Definition seqT_descr (s : seqT E) : result pv :=
  do l <- mapM (fun p : Z * E =>
            do d <- edescr (snd p);
            Ok (PStr (str_of_Z (fst p)),
                PDict [(pstr "channels", d);
                       (pstr "sequencing", match alookup Z.eqb (fst p) (sseq s) with
                                           | Some q => sqing_descr q | None => pstr "Not set" end)])) (sdata s);
  Ok (PDict (l ++ [(pstr "awgspecs", specs_descr (sspecs s))])).
End SeqDescr.
Definition entry_descr (x : entry) : result pv :=
  match x with EElem e => el_descr e | ESub s => seqT_descr el_descr s end.
(* Sequence.description *)
Definition seq_descr (s : seq) : result pv := seqT_descr entry_descr s.

(* json.dump followed by json.load: tuples become lists (keys are already strings) *)
Fixpoint json_rt (p : pv) : pv :=
  match p with
  | PTuple l => PList (map json_rt l)
  | PList l => PList (map json_rt l)
  | PDict l => PDict (map (fun kv : pv * pv => (json_rt (fst kv), json_rt (snd kv))) l)
  | x => x
  end.

(* ---- readers ---- *)
Definition pv_str_eqb (p : pv) (x : str) : bool := match p with PStr y => str_eqb x y | _ => false end.
Definition pd_items (p : pv) : result (list (pv * pv)) :=
  match p with PDict l => Ok l | _ => Err EAttr end.
Definition pd_get (k : string) (p : pv) : result pv :=
  match p with
  | PDict l => match find (fun kv : pv * pv => pv_str_eqb (fst kv) (S_ k)) l with
               | Some kv => Ok (snd kv) | None => Err EKey end
  | _ => Err EType
  end.
Definition pd_has (k : string) (p : pv) : bool :=
  match p with PDict l => existsb (fun kv : pv * pv => pv_str_eqb (fst kv) (S_ k)) l | _ => false end.

Definition val_of_pv (p : pv) : result val :=
  match p with
  | PNum q => Ok (VNum q) | PInt z => Ok (VNum (inject_Z z)) | PStr x => Ok (VStr x) | PNone => Ok VNone
  | _ => Err EType
  end.
Definition num_of_pv (p : pv) : result Q :=
  match p with PNum q => Ok q | PInt z => Ok (inject_Z z) | _ => Err EType end.
Definition int_of_pv (p : pv) : result Z :=
  match p with
  | PInt z => Ok z
  | PNum q => if Pos.eqb (Qden (Qred q)) 1 then Ok (Qnum (Qred q)) else Err EType
  | _ => Err EType
  end.
Definition mspec_of_pv (p : pv) : result mspec :=
  match p with
  | PList [a; b] | PTuple [a; b] => do x <- num_of_pv a; do y <- num_of_pv b; Ok (x, y)
  | _ => Err EType
  end.
Definition list_of_pv (p : pv) : result (list pv) :=
  match p with PList l | PTuple l => Ok l | _ => Err EType end.

(* the `knowfunctions` table: PulseAtoms members by their printed name *)
Definition known_function (x : str) : result fn :=
  if str_eqb x (fn_descr Framp) then Ok Framp else if str_eqb x (fn_descr Fsine) then Ok Fsine
  else if str_eqb x (fn_descr Fgauss) then Ok Fgauss else if str_eqb x (fn_descr Fgsc) then Ok Fgsc
  else Err EKey.

Fixpoint contains (sub x : str) : bool :=
  match x with
  | [] => is_empty sub
  | _ :: t => (str_eqb (firstn (length sub) x) sub) || contains sub t
  end.

(* BluePrint.blueprint_from_description *)
Definition bp_from_descr (d : pv) : result bp :=
  do items <- pd_items d;
  let segs := filter (fun kv : pv * pv => match fst kv with PStr k => contains (S_ "segment") k | _ => false end) items in
  do b <- (fix go (i : Z) (l : list (pv * pv)) (acc : bp) : result bp :=
             match l with
             | [] => Ok acc
             | (_, sd) :: t =>
                 do fnm <- pd_get "function" sd;
                 do nm <- pd_get "name" sd;
                 do ar <- pd_get "arguments" sd;
                 do aritems <- pd_items ar;
                 match nm with
                 | PStr n =>
                   do one <-
                     (if pv_str_eqb fnm (S_ "waituntil") then
                        match aritems with
                        | (_, first) :: _ =>
                            do l0 <- list_of_pv first;
                            match l0 with
                            | x :: _ => do v <- val_of_pv x;
                                        step_res (bp_insert bp_empty i Fwait [v] VNone (Some (basename n)))
                            | [] => Err EIndex
                            end
                        | [] => Err EIndex
                        end
                      else
                        match fnm with
                        | PStr fs =>
                            do f <- known_function fs;
                            do vs <- mapM (fun kv : pv * pv => val_of_pv (snd kv)) aritems;
                            do du <- pd_get "durations" sd;
                            do dv <- val_of_pv du;
                            step_res (bp_insert bp_empty i f vs dv (Some (basename n)))
                        | _ => Err EKey
                        end);
                   go (i + 1) t (bp_add acc one)
                 | _ => Err EValue
                 end
             end) 0 segs bp_empty;
  do m1 <- pd_get "marker1_abs" d; do l1 <- list_of_pv m1; do a1 <- mapM mspec_of_pv l1;
  do m2 <- pd_get "marker2_abs" d; do l2 <- list_of_pv m2; do a2 <- mapM mspec_of_pv l2;
  do r1 <- pd_get "marker1_rel" d; do k1 <- list_of_pv r1; do s1 <- mapM mspec_of_pv k1;
  do r2 <- pd_get "marker2_rel" d; do k2 <- list_of_pv r2; do s2 <- mapM mspec_of_pv k2;
  Ok (set_sm2 (set_sm1 (set_am2 (set_am1 b a1) a2) s1) s2).

(* int(chan) on a description key *)
Fixpoint digits_val (acc : Z) (x : str) : option Z :=
  match x with
  | [] => Some acc
  | c :: t => if is_digit c then digits_val (acc * 10 + Z.of_nat (nat_of_ascii c) - 48) t else None
  end.
Definition int_of_str (x : str) : result Z :=
  match x with
  | [] => Err EValue
  | c :: t => if Ascii.eqb c "-"%char
              then match t, digits_val 0 t with _ :: _, Some z => Ok (- z) | _, _ => Err EValue end
              else match digits_val 0 x with Some z => Ok z | None => Err EValue end
  end.

Definition flags_of_pv (p : pv) : result (list val) := do l <- list_of_pv p; mapM val_of_pv l.

(* Element.element_from_description *)
Definition el_from_descr (d : pv) : result elem :=
  do items <- pd_items d;
  (fix go (l : list (pv * pv)) (acc : elem) : result elem :=
     match l with
     | [] => Ok acc
     | (PStr k, cd) :: t =>
         do b <- bp_from_descr cd;
         do c <- int_of_str k;
         do e1 <- step_res (el_add_bp acc (CInt c) b);
         do e2 <- (if pd_has "flags" cd
                   then do f <- pd_get "flags" cd; do fl <- flags_of_pv f; step_res (el_add_flags e1 (CInt c) fl)
                   else Ok e1);
         go t e2
     | _ :: _ => Err EType
     end) items el_empty.

Definition specval_of_pv (p : pv) : result specval :=
  match p with
  | PDict _ =>
      do k <- pd_get "kind" p; do o <- pd_get "order" p; do f <- pd_get "f_cut" p; do t <- pd_get "tau" p;
      match k with
      | PStr ks => do oz <- int_of_pv o; do fv <- val_of_pv f; do tv <- val_of_pv t; Ok (SFilt ks oz fv tv)
      | _ => Err EType
      end
  | _ => do v <- val_of_pv p; Ok (SVal v)
  end.

(* Sequence.sequence_from_description *)
Definition seq_from_descr (d : pv) : result seq :=
  do specs <- pd_get "awgspecs" d;
  do SRp <- pd_get "SR" specs;
  do SR <- val_of_pv SRp;
  do items <- pd_items d;
  do s1 <- (fix go (l : list (pv * pv)) (acc : seq) : result seq :=
     match l with
     | [] => Ok acc
     | (PStr k, ed) :: t =>
         do chd <- pd_get "channels" ed;
         do chitems <- pd_items chd;
         do r <- (fix goc (cl : list (pv * pv)) (el : elem) (sq : seq) : result (elem * seq) :=
                    match cl with
                    | [] => Ok (el, sq)
                    | (PStr ck, cd) :: ct =>
                        do b <- bp_from_descr cd;
                        do c <- int_of_str ck;
                        do e1 <- step_res (el_add_bp el (CInt c) (set_sr b SR));
                        do e2 <- (if pd_has "flags" cd
                                  then do f <- pd_get "flags" cd; do fl <- flags_of_pv f;
                                       step_res (el_add_flags e1 (CInt c) fl)
                                  else Ok e1);
                        do amp <- pd_get (string_of_list_ascii (S_ "channel" ++ ck ++ S_ "_amplitude")) specs;
                        do ampv <- val_of_pv amp;
                        do off <- pd_get (string_of_list_ascii (S_ "channel" ++ ck ++ S_ "_offset")) specs;
                        do offv <- val_of_pv off;
                        goc ct e2 (seq_set_off (seq_set_amp sq (CInt c) ampv) (CInt c) offv)
                    | _ :: _ => Err EType
                    end) chitems el_empty acc;
         let '(el, sq) := r in
         do pos <- int_of_str k;
         do sq1 <- step_res (seq_add_element sq pos el);
         do sd <- pd_get "sequencing" ed;
         do tw <- pd_get "Wait trigger" sd; do twz <- int_of_pv tw;
         do nr <- pd_get "Repeat" sd; do nrz <- int_of_pv nr;
         do ji <- pd_get "jump_input" sd; do jiz <- int_of_pv ji;
         do jt <- pd_get "jump_target" sd; do jtz <- int_of_pv jt;
         do gt <- pd_get "Go to" sd; do gtz <- int_of_pv gt;
         go t (set_sseq sq1 (aset Z.eqb pos (mkSq twz nrz jiz jtz gtz) (sseq sq1)))
     | _ :: _ => Err EType
     end) (removelast items) seq_empty;
  do spitems <- pd_items specs;
  do s2 <- (fix gos (l : list (pv * pv)) (acc : seq) : result seq :=
     match l with
     | [] => Ok acc
     | (PStr k, v) :: t => do sv <- specval_of_pv v; gos t (spec_set acc k sv)
     | _ :: _ => Err EType
     end) spitems s1;
  Ok (seq_set_sr s2 SR).
