(* The op language of the correspondence check: a case is a program over blueprint / element /
   sequence registers; every op yields one observable value.  harness/lang.py runs the same
   programs against the implementation. *)
From Coq Require Import String Ascii List ZArith QArith Bool.
From BB Require Import Base.Names Base.Num Base.PyList Model.Types Model.Blueprint Model.Forge
  Model.Element Model.PyVal Model.Sequence Model.Output Model.Descr Model.Tools.
Import ListNotations.
Open Scope Z_scope.

Inductive op :=
(* blueprints *)
| BNew (r : nat)
| BInsert (r : nat) (pos : Z) (f : fn) (a : list val) (d : val) (nm : option str)
| BRemove (r : nat) (n : str)
| BChangeArg (r : nat) (n : str) (a : argref) (v : val) (ev : bool)
| BChangeDur (r : nat) (n : str) (d : val) (ev : bool)
| BSetSegMarker (r : nat) (n : str) (spec : mspec) (id : Z)
| BRemoveSegMarker (r : nat) (n : str) (id : Z)
| BSetSR (r : nat) (v : val)
| BSetMarker (r : nat) (id : Z) (l : list mspec)
| BCopy (r r' : nat)
| BAdd (r1 r2 r3 : nat)
| BFromJson (r r' : nat)
(* elements *)
| ENew (e : nat)
| EAddBp (e : nat) (c : chan) (r : nat)
| EAddArray (e : nat) (c : chan) (w : rle) (SR : val) (ms : list (str * rle))
| EAddFlags (e : nat) (c : chan) (fl : list val)
| EChangeArg (e : nat) (c : chan) (n : str) (a : argref) (v : val) (ev : bool)
| EChangeDur (e : nat) (c : chan) (n : str) (d : val) (ev : bool)
| ECopy (e e' : nat)
| EFromJson (e e' : nat)
(* sequences *)
| SNew (s : nat)
| SSetSR (s : nat) (v : val)
| SSetAmp (s : nat) (c : chan) (v : val)
| SSetOff (s : nat) (c : chan) (v : val)
| SSetDelay (s : nat) (c : chan) (v : val)
| SSetFilter (s : nat) (c : chan) (kind : str) (order : option Z) (fcut tau : val)
| SAddElement (s : nat) (pos : Z) (e : nat)
| SAddSub (s : nat) (pos : Z) (s2 : nat)
| SSetSequencing (s : nat) (pos : Z) (f : sqfield) (v : Z)
| SSetSettings (s : nat) (pos w n j g : Z)
| SSetName (s : nat) (n : str)
| SAdd (s1 s2 s3 : nat)
| SCopy (s s' : nat)
| SFromJson (s s' : nat)
| SElemChangeArg (s : nat) (pos : Z) (c : chan) (n : str) (a : argref) (v : val) (ev : bool)
| SElemChangeDur (s : nat) (pos : Z) (c : chan) (n : str) (d : val) (ev : bool)
(* the other Element mutators through the live handle Sequence.element(pos) *)
| SElemAddBp (s : nat) (pos : Z) (c : chan) (r : nat)
| SElemAddArray (s : nat) (pos : Z) (c : chan) (w : rle) (SR : val) (ms : list (str * rle))
| SElemAddFlags (s : nat) (pos : Z) (c : chan) (fl : list val)
(* tools *)
| TVarying (e : nat) (cs : list chan) (ns : list str) (ars : list argref) (its : list (list val)) (s : nat)
| TRepeat (s : nat) (ps : list Z) (cs : list chan) (ns : list str) (ars : list argref) (its : list (list val)) (s' : nat)
| TLinear (e : nat) (c : chan) (n : str) (a : argref) (start stop stp : Q) (s : nat)
(* observations *)
| OBDescr (r : nat) | OBForge (r : nat) | OBDuration (r : nat) | OBPoints (r : nat) | OBLen (r : nat) | OBEq (r1 r2 : nat)
| OEDescr (e : nat) | OEValidate (e : nat) | OEPoints (e : nat) | OEDuration (e : nat) | OESR (e : nat)
| OEChannels (e : nat) | OEArrays (e : nat) (t : bool) | OEEq (e1 e2 : nat)
| OSDescr (s : nat) | OSCheck (s : nat) | OSChannels (s : nat) | OSPoints (s : nat) | OSDuration (s : nat)
| OSForge (s : nat) (d f t : bool) | OSAwg (s : nat) (ix : index) | OSSeqx (s : nat) (fl : bool)
| OSEq (s1 s2 : nat) | OSLen (s : nat) | OSSR (s : nat).

Record store := mkStore { bps : list (nat * bp); els : list (nat * elem); sqs : list (nat * seq) }.
Definition store0 : store := mkStore [] [] [].

Definition getB (st : store) (r : nat) : result bp :=
  match alookup Nat.eqb r (bps st) with Some b => Ok b | None => Err ENotImpl end.
Definition getE (st : store) (r : nat) : result elem :=
  match alookup Nat.eqb r (els st) with Some b => Ok b | None => Err ENotImpl end.
Definition getS (st : store) (r : nat) : result seq :=
  match alookup Nat.eqb r (sqs st) with Some b => Ok b | None => Err ENotImpl end.
Definition putB (st : store) (r : nat) (b : bp) : store := mkStore (aset Nat.eqb r b (bps st)) (els st) (sqs st).
Definition putE (st : store) (r : nat) (e : elem) : store := mkStore (bps st) (aset Nat.eqb r e (els st)) (sqs st).
Definition putS (st : store) (r : nat) (s : seq) : store := mkStore (bps st) (els st) (aset Nat.eqb r s (sqs st)).

Definition outcome (e : option err) : pv := match e with None => PNone | Some x => PErr x end.

Definition onB (st : store) (r : nat) (f : bp -> step bp) : store * pv :=
  match getB st r with
  | Err e => (st, PErr e)
  | Ok b => let '(b', o) := f b in (putB st r b', outcome o)
  end.
Definition onE (st : store) (r : nat) (f : elem -> step elem) : store * pv :=
  match getE st r with
  | Err e => (st, PErr e)
  | Ok b => let '(b', o) := f b in (putE st r b', outcome o)
  end.
Definition onS (st : store) (r : nat) (f : seq -> step seq) : store * pv :=
  match getS st r with
  | Err e => (st, PErr e)
  | Ok b => let '(b', o) := f b in (putS st r b', outcome o)
  end.
Definition obs (st : store) (r : result pv) : store * pv := (st, pv_of_result (fun x => x) r).

Definition is_user_fn (f : fn) : bool := match f with Fua | Fub | Fuc => true | _ => false end.
Definition pv_of_call (k : block) : pv :=
  PTuple [PStr (fn_name (bfn k)); PList (map pv_of_val (bargs k)); PNum (bsr k); PInt (bn k)].
(* _subelementBuilder(bp, bp.SR, bp.durations) plus the log of user-function calls it made *)
Definition pv_forged_bp (b : bp) : result pv :=
  do f <- forge_bp b;
  match sr b with
  | VNum s =>
      match pv_of_chout (OForged f None true s) (WBlocks (fblocks f)) with
      | PDict d => Ok (PDict (d ++ [(pstr "calls", PList (map pv_of_call (filter (fun k => is_user_fn (bfn k)) (fblocks f))))]))
      | x => Ok x
      end
  | _ => Err EType
  end.

(* mutation of an element stored in a sequence, through Sequence.element(pos) *)
Definition on_seq_elem (s : seq) (pos : Z) (f : elem -> step elem) : step seq :=
  match alookup Z.eqb pos (sdata s) with
  | None => fail s EKey
  | Some (ESub _) => fail s EType
  | Some (EElem e) => let '(e', o) := f e in (set_sdata s (aset Z.eqb pos (EElem e') (sdata s)), o)
  end.

Definition exec (st : store) (o : op) : store * pv :=
  match o with
  | BNew r => (putB st r bp_empty, PNone)
  | BInsert r pos f a d nm => onB st r (fun b => bp_insert b pos f a d nm)
  | BRemove r n => onB st r (fun b => bp_remove b n)
  | BChangeArg r n a v ev => onB st r (fun b => bp_change_arg b n a v ev)
  | BChangeDur r n d ev => onB st r (fun b => bp_change_dur b n d ev)
  | BSetSegMarker r n sp id => onB st r (fun b => bp_set_segmarker b n sp id)
  | BRemoveSegMarker r n id => onB st r (fun b => bp_remove_segmarker b n id)
  | BSetSR r v => onB st r (fun b => ok (set_sr b v))
  | BSetMarker r id l => onB st r (fun b => ok (if id =? 1 then set_am1 b l else set_am2 b l))
  | BCopy r r' => match getB st r with Ok b => (putB st r' (bp_copy b), PNone) | Err e => (st, PErr e) end
  | BAdd r1 r2 r3 =>
      match getB st r1, getB st r2 with
      | Ok a, Ok b => (putB st r3 (bp_add a b), PNone)
      | _, _ => (st, PErr ENotImpl)
      end
  | BFromJson r r' =>
      match getB st r with
      | Ok b => match bp_from_descr (json_rt (bp_descr b)) with
                | Ok b' => (putB st r' b', PNone) | Err e => (st, PErr e) end
      | Err e => (st, PErr e)
      end
  | ENew e => (putE st e el_empty, PNone)
  | EAddBp e c r => match getB st r with Ok b => onE st e (fun x => el_add_bp x c b) | Err er => (st, PErr er) end
  | EAddArray e c w SR ms => onE st e (fun x => el_add_array x c w SR ms)
  | EAddFlags e c fl => onE st e (fun x => el_add_flags x c fl)
  | EChangeArg e c n a v ev => onE st e (fun x => el_change_arg x c n a v ev)
  | EChangeDur e c n d ev => onE st e (fun x => el_change_dur x c n d ev)
  | ECopy e e' => match getE st e with Ok x => (putE st e' x, PNone) | Err er => (st, PErr er) end
  | EFromJson e e' =>
      match getE st e with
      | Ok x => match (do d <- el_descr x; el_from_descr (json_rt d)) with
                | Ok x' => (putE st e' x', PNone) | Err er => (st, PErr er) end
      | Err er => (st, PErr er)
      end
  | SNew s => (putS st s seq_empty, PNone)
  | SSetSR s v => onS st s (fun x => ok (seq_set_sr x v))
  | SSetAmp s c v => onS st s (fun x => ok (seq_set_amp x c v))
  | SSetOff s c v => onS st s (fun x => ok (seq_set_off x c v))
  | SSetDelay s c v => onS st s (fun x => ok (seq_set_delay x c v))
  | SSetFilter s c k o f t => onS st s (fun x => seq_set_filter x c k o f t)
  | SAddElement s pos e => match getE st e with Ok x => onS st s (fun q => seq_add_element q pos x) | Err er => (st, PErr er) end
  | SAddSub s pos s2 => match getS st s2 with Ok x => onS st s (fun q => seq_add_sub q pos x) | Err er => (st, PErr er) end
  | SSetSequencing s pos f v => onS st s (fun q => seq_set_sequencing q pos f v)
  | SSetSettings s pos w n j g => onS st s (fun q => ok (seq_set_settings q pos w n j g))
  | SSetName s n => onS st s (fun q => ok (mkSeq (sdata q) (sseq q) (sspecs q) n))
  | SAdd s1 s2 s3 =>
      match getS st s1, getS st s2 with
      | Ok a, Ok b => match seq_add a b with Ok c => (putS st s3 c, PNone) | Err e => (st, PErr e) end
      | _, _ => (st, PErr ENotImpl)
      end
  | SCopy s s' =>          (* Sequence.copy() copies data, sequencing and settings - not the name *)
      match getS st s with
      | Ok x => (putS st s' (mkSeq (sdata x) (sseq x) (sspecs x) []), PNone)
      | Err er => (st, PErr er)
      end
  | SFromJson s s' =>
      match getS st s with
      | Ok x => match (do d <- seq_descr x; seq_from_descr (json_rt d)) with
                | Ok x' => (putS st s' x', PNone) | Err er => (st, PErr er) end
      | Err er => (st, PErr er)
      end
  | SElemChangeArg s pos c n a v ev => onS st s (fun q => on_seq_elem q pos (fun e => el_change_arg e c n a v ev))
  | SElemChangeDur s pos c n d ev => onS st s (fun q => on_seq_elem q pos (fun e => el_change_dur e c n d ev))
  | SElemAddBp s pos c r =>
      match getB st r with
      | Ok b => onS st s (fun q => on_seq_elem q pos (fun e => el_add_bp e c b))
      | Err er => (st, PErr er)
      end
  | SElemAddArray s pos c w SR ms => onS st s (fun q => on_seq_elem q pos (fun e => el_add_array e c w SR ms))
  | SElemAddFlags s pos c fl => onS st s (fun q => on_seq_elem q pos (fun e => el_add_flags e c fl))
  | TVarying e cs ns ars its s =>
      match getE st e with
      | Ok x => match make_varying x cs ns ars its with Ok q => (putS st s q, PNone) | Err er => (st, PErr er) end
      | Err er => (st, PErr er)
      end
  | TRepeat s ps cs ns ars its s' =>
      match getS st s with
      | Ok x => match repeat_and_vary x ps cs ns ars its with Ok q => (putS st s' q, PNone) | Err er => (st, PErr er) end
      | Err er => (st, PErr er)
      end
  | TLinear e c n a start stop stp s =>
      match getE st e with
      | Ok x => match make_linear x c n a start stop stp with Ok q => (putS st s q, PNone) | Err er => (st, PErr er) end
      | Err er => (st, PErr er)
      end
  | OBDescr r => obs st (do b <- getB st r; Ok (bp_descr b))
  | OBForge r => obs st (do b <- getB st r; pv_forged_bp b)
  | OBDuration r => obs st (do b <- getB st r; do d <- bp_duration b; Ok (PNum d))
  | OBPoints r => obs st (do b <- getB st r; do d <- bp_points b; Ok (PInt d))
  | OBLen r => obs st (do b <- getB st r; Ok (PInt (Z.of_nat (length (names b)))))
  | OBEq r1 r2 => obs st (do a <- getB st r1; do b <- getB st r2; Ok (PBool (bp_eqb a b)))
  | OEDescr e => obs st (do x <- getE st e; el_descr x)
  | OEValidate e => obs st (do x <- getE st e; do _ <- el_validate x; Ok PNone)
  | OEPoints e => obs st (do x <- getE st e; do n <- el_points x; Ok (PInt n))
  | OEDuration e => obs st (do x <- getE st e; do d <- el_duration x; Ok (PNum d))
  | OESR e => obs st (do x <- getE st e; do v <- el_sr x; Ok (pv_of_val v))
  | OEChannels e => obs st (do x <- getE st e; Ok (PList (map pv_of_chan (el_channels x))))
  | OEArrays e t =>
      obs st (do x <- getE st e; do arrs <- el_get_arrays x t;
              do l <- mapM (fun p : chan * chout => do w <- chout_plan (snd p);
                                                     Ok (pv_of_chan (fst p), pv_of_chout (snd p) w)) arrs;
              Ok (PDict l))
  | OEEq e1 e2 => obs st (do a <- getE st e1; do b <- getE st e2; do r <- el_eqb a b; Ok (PBool r))
  | OSDescr s => obs st (do x <- getS st s; seq_descr x)
  | OSCheck s => obs st (do x <- getS st s; do c <- seq_check x; Ok (PBool c))
  | OSChannels s => obs st (do x <- getS st s; do c <- seq_channels x; Ok (PList (map pv_of_chan c)))
  | OSPoints s => obs st (do x <- getS st s; do n <- seq_points x; Ok (PInt n))
  | OSDuration s => obs st (do x <- getS st s; do d <- seq_duration x; Ok (PNum d))
  | OSForge s d f t => obs st (do x <- getS st s; seq_forge x d f t)
  | OSAwg s ix => obs st (do x <- getS st s; Ok (pv_awg x ix))
  | OSSeqx s fl => obs st (do x <- getS st s; Ok (output_seqx x fl))
  | OSEq s1 s2 => obs st (do a <- getS st s1; do b <- getS st s2; do r <- seq_eqb a b; Ok (PBool r))
  | OSLen s => obs st (do x <- getS st s; Ok (PInt (Z.of_nat (length (sdata x)))))
  | OSSR s => obs st (do x <- getS st s; Ok (pv_of_val (seq_SR x)))          (* Sequence.SR: the setting, or -1 *)
  end.

Fixpoint run_from (st : store) (l : list op) : list pv :=
  match l with
  | [] => []
  | o :: t => let '(st', r) := exec st o in r :: run_from st' t
  end.
Definition run (l : list op) : list pv := run_from store0 l.
