(* Helpers for the generated case files of the correspondence check. *)
From Coq Require Import String List ZArith QArith.
From BB Require Import Base.Names Model.Types Model.PyVal Model.Interp Show.
Import ListNotations.

Definition q (n : Z) (d : positive) : Q := Qmake n d.
Definition show_programs (l : list (list op)) : string :=
  sh_brack (fun p => sh_brack sh_pv (run p)) l "".
