#!/usr/bin/env python3
"""Candidate minimal repairs for the 18 defects listed in DESIGN.md section 2.

NOT framework code: a record of the exact textual patches that were validated during the
design phase (all applied together to a scratch copy of /repo, the unedited test suite
gives the baseline result: 132 passed, the same 2 deadline failures).  In the build
phase each entry becomes one unguarded "fix:" commit in /repo.

usage: candidate_fixes.py <root of a COPY of the repo>   (never run on /repo itself)
"""
import sys

FIXES = [
 # (defect, property, file, old, new)
 ("D1", "C14", "sequence.py", "return val / ampl * 2 - off", "return (val - off) / ampl * 2"),
 ("D2", "C10", "sequence.py", "pre_wait = np.zeros(int(delay / self.SR))",
                              "pre_wait = np.zeros(int(round(delay * self.SR)))"),
 ("D2", "C10", "sequence.py", "post_wait = np.zeros(int((maxdelay - delay) / self.SR))",
                              "post_wait = np.zeros(int(round((maxdelay - delay) * self.SR)))"),
 ("D3", "C10", "element.py", "pre_wait = np.zeros(int(delay * SR))", "pre_wait = np.zeros(int(round(delay * SR)))"),
 ("D3", "C10", "element.py", "post_wait = np.zeros(int((maxdelay - delay) * SR))",
                             "post_wait = np.zeros(int(round((maxdelay - delay) * SR)))"),
 ("D4", "C10", "sequence.py", """            delays = []
            for chan in channels:
                try:
                    delays.append(self._awgspecs[f"channel{chan}_delay"])
                except KeyError:
                    delays.append(0)

            for pos in range(1, seqlen + 1):
                if isinstance(data[pos], Sequence):
                    subseq = data[pos]
                    for elem in subseq._data.values():
                        elem._applyDelays(delays)
                elif isinstance(data[pos], Element):
                    data[pos]._applyDelays(delays)
""", """            delays = {}
            for chan in channels:
                try:
                    delays[chan] = self._awgspecs[f"channel{chan}_delay"]
                except KeyError:
                    delays[chan] = 0

            for pos in range(1, seqlen + 1):
                if isinstance(data[pos], Sequence):
                    subseq = data[pos]
                    for elem in subseq._data.values():
                        elem._applyDelays([delays[ch] for ch in elem.channels])
                elif isinstance(data[pos], Element):
                    elem = data[pos]
                    elem._applyDelays([delays[ch] for ch in elem.channels])
"""),
 ("D5", "C15", "element.py", 'outdict[channel]["flags"] = signal["flags"]',
                             'outdict[channel]["flags"] = np.array(signal["flags"])'),
 ("D6", "C19", "blueprint.py", 'name=re.sub(r"\\d", "", seg_dict["name"]),', 'name=cls._basename(seg_dict["name"]),'),
 ("D6", "C19", "blueprint.py", '                bp_seg.insertSegment(i, "waituntil", arguments)',
  '                bp_seg.insertSegment(\n                    i, "waituntil", arguments, name=cls._basename(seg_dict["name"])\n                )'),
 ("D7", "C19", "blueprint.py", 'bp_sum.marker1 = blue_dict["marker1_abs"]',
                               'bp_sum.marker1 = [tuple(mark) for mark in blue_dict["marker1_abs"]]'),
 ("D7", "C19", "blueprint.py", 'bp_sum.marker2 = blue_dict["marker2_abs"]',
                               'bp_sum.marker2 = [tuple(mark) for mark in blue_dict["marker2_abs"]]'),
 ("D8", "C19", "sequence.py", """        new_instance.setSR(SR)
        return new_instance""", """        for key, val in awgspecs.items():
            new_instance._awgspecs[key] = val
        new_instance.setSR(SR)
        return new_instance"""),
 ("D9", "C07", "sequence.py", "if not positions == list(range(1, len(positions) + 1)):",
                              "if not sorted(positions) == list(range(1, len(positions) + 1)):"),
 ("D10", "C08", "element.py", 'outdict[channel] = signal["array"]\n', 'outdict[channel] = dict(signal["array"])\n'),
 ("D11", "C08", "element.py", """        elif not self._meta == other._meta:
            return False
        else:
            return True""", """        else:
            return True"""),
 ("D12", "C20", "blueprint.py", """        if not self._segmark2 == other._segmark2:
            return False
        return True""", """        if not self._segmark2 == other._segmark2:
            return False
        if not self._durslist == other._durslist:
            return False
        return True"""),
 ("D13", "C05", "blueprint.py", """            # allow the user to input single values instead of (val,)
            no_of_args = len(self._argslist[position])
            if not isinstance(value, tuple) and no_of_args == 1:
                value = (value,)

""", ""),
 ("D14", "C09", "blueprint.py", """            if isinstance(funlist[ii], str):
                namelist[ii] = funlist[ii]
            elif name == "":""", """            if isinstance(funlist[ii], str):
                if name == "":
                    namelist[ii] = funlist[ii]
            elif name == "":"""),
 ("D15", "C02", "broadbean.py", "return ampl * baregauss / normalization + offset",
                                "return ampl * baregauss * normalization + offset"),
 ("D16", "C01", "blueprint.py", "newdurations = np.array(durations)", "newdurations = np.array(durations, dtype=float)"),
 ("D17", "C19", "element.py", """            elem.addBluePrint(int(chan), bp_sum)
        return elem""", """            elem.addBluePrint(int(chan), bp_sum)
            if "flags" in element_dict[chan]:
                elem.addFlags(int(chan), element_dict[chan]["flags"])
        return elem"""),
 ("D18", "C12", "ripasso.py", "freqax_pos = freqax[: npts // 2]", "freqax_pos = freqax[: (npts + 1) // 2]"),
 ("D18", "C12", "ripasso.py", "freqax_neg = freqax[npts // 2 :]", "freqax_neg = freqax[(npts + 1) // 2 :]"),
]

def main(root):
    assert not root.rstrip("/").endswith("/repo") or root.startswith("/tmp"), "apply to a scratch copy only"
    for d, prop, fn, old, new in FIXES:
        p = f"{root}/src/broadbean/{fn}"
        s = open(p).read()
        assert s.count(old) == 1, (d, fn, s.count(old))
        open(p, "w").write(s.replace(old, new))
        print("applied", d, prop, fn)

if __name__ == "__main__":
    main(sys.argv[1])
