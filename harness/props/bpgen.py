"""Blueprint builders shared by the forging properties (C01, C03, C04)."""
from fractions import Fraction

from .common import FUNCS, SRS, rnd_args, off_grid_dur


def target_blueprint(rng, nseg=None, waits=True, aligned=False, SR=None, nmax=60):
    """A target segment list [(fn, args, dur, name, n_expected)] at sample rate SR.
    waituntil segments get a target time leaving >= 2 samples of padding (not near a tie)."""
    # integer-typed durations (dur=2, not 2.0) at a sample rate that does not divide them: the forger must still
    # deliver k/SR time axes and float durations
    int_mode = SR is None and not aligned and rng.random() < 0.12
    if int_mode:
        SR = rng.choice([1, 1.7, 2.5, 12.5, 3])
    SR = SR if SR is not None else rng.choice(SRS)
    nseg = nseg or rng.randint(1, 8)
    segs = []
    elapsed = Fraction(0)      # exact sum of the float durations so far
    for i in range(nseg):
        if waits and i >= 1 and rng.random() < 0.22:
            pad = rng.randint(2, 30)
            f = 0 if aligned else rng.choice([0, rng.uniform(-0.4, 0.4)])
            t = float(elapsed) + (pad + f) / SR
            # the padding the implementation will compute, exactly
            n = round((Fraction(t) - elapsed) * Fraction(SR))
            frac = (Fraction(t) - elapsed) * Fraction(SR) - n
            if abs(frac) > Fraction(41, 100) or n < 2:
                t = float(elapsed + Fraction(pad) / Fraction(SR))
                n = round((Fraction(t) - elapsed) * Fraction(SR))
            segs.append(("waituntil", [t], None, rng.choice([None, "wait", "w"]), n))
            elapsed = Fraction(t)
        else:
            f = rng.choice(list(FUNCS))
            if aligned:
                n = rng.randint(2, nmax)
                d = n / SR
                if round(Fraction(d) * Fraction(SR)) != n:
                    d = float(Fraction(n) / Fraction(SR))
            elif int_mode:
                d = rng.choice([k for k in range(1, 9)
                                if round(k * Fraction(SR)) >= 2 and abs(k * Fraction(SR) - round(k * Fraction(SR))) <= Fraction(2, 5)])
            else:
                d, n = off_grid_dur(rng, SR, 2, nmax)
            n = round(Fraction(d) * Fraction(SR))
            segs.append((f, rnd_args(rng, f, float(d)), d, rng.choice([None, None, "a", "b", "x2y"]), n))
            elapsed += Fraction(d)
    return SR, segs


def insertion_history(rng, reg, segs, shuffle=True):
    """Ops that build `segs` in register `reg` by inserting in a random order."""
    order = list(range(len(segs)))
    if shuffle:
        rng.shuffle(order)
    done = []
    ops = []
    for i in order:
        f, args, d, name, _n = segs[i]
        pos = sum(1 for j in done if j < i)
        if pos == len(done) and rng.random() < 0.5:
            pos = -1
        ops.append(("BInsert", reg, pos, f, list(args), d, name))
        done.append(i)
    return ops
