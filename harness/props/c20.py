"""C20 - equality is observational: equal objects describe and forge identically."""
import json
from fractions import Fraction

from .common import PARAMS, rnd_args
from .elgen import Regs

ID = "C20"
ALLOWED_AXIOMS = []
RULE = ("pairs (x, y) of blueprints, elements or sequences (blueprint channels only) derived from a common ancestor by "
        "copy() followed by 0-2 public mutations on either side, drawn so that pairs differing in exactly one "
        "attribute of every kind occur (segment duration, argument, function via insert/remove, name, absolute marker, "
        "segment-bound marker, flag, sequencing entry, AWG setting incl. delay and filter) and that the same mutation "
        "applied to both sides keeps them equal; x==y, y==x, x==x, copy==original, both descriptions and both forged "
        "outputs are observed. Non-trivial: at least one mutation; distinct by (object kind, mutations).")
TRUST = ["C20 statement oracle: whenever the implementation says ==, its descriptions (JSON-normalised) and forged "
         "arrays must agree; == must be reflexive and symmetric; a fresh copy must be equal"]


def generate(rng, tier):
    n = 150 if tier == "quick" else 4000
    for _ci in range(n):
        k = rng.random()
        yield gen(rng, "bp" if k < 0.4 else ("el" if k < 0.65 else "seq"))


def base_bp(rng, regs, SR, N, wait_pad=None):
    """wait_pad: insert `waituntil` after the first segment, filling wait_pad samples (4..6, so that the edits below,
    which lengthen a segment by at most 2 samples, never come near the target)."""
    r = regs.B()
    ops = [("BNew", r)]
    sizes = [2] * max(1, min(rng.randint(1, 4), N // 2))
    for _ in range(N - sum(sizes)):
        sizes[rng.randrange(len(sizes))] += 1
    names, funcs = [], []
    for i, n in enumerate(sizes):
        f = rng.choice(["ramp", "sine", "gaussian", "ua", "ub2"])
        nm = rng.choice([None, "a", "b"])
        ops.append(("BInsert", r, -1, f, rnd_args(rng, f, n / SR), n / SR, nm))
        names.append(nm or f)
        funcs.append(f)
        if i == 0 and wait_pad:
            ops.append(("BInsert", r, -1, "waituntil", [float(Fraction(n + wait_pad) / Fraction(SR))], None, None))
    from .common import uniquify
    names = uniquify(names)
    ops.append(("BSetSR", r, SR))
    if rng.random() < 0.5:
        ops.append(("BSetMarker", r, 1, [(1 / SR, 2 / SR)]))
    if rng.random() < 0.5:
        ops.append(("BSetSegMarker", r, names[0], (0, 1 / SR), 2))
    return r, ops, names, funcs, sizes


def bp_mutation(rng, reg, names, funcs, sizes, SR, via=None):
    """One public mutation of a blueprint (via=None) or of a blueprint inside an element (via=(e, chan))."""
    i = rng.randrange(len(names))
    k = rng.random()
    if via and k > 0.5:
        k = k - 0.5
    if k < 0.25:
        d = (sizes[i] + rng.choice([0, 0, 1, 2])) / SR         # sometimes the same value: no observable change
        if rng.random() < 0.25:
            d = sizes[i] / SR * rng.choice([1 + 3e-10, 1 - 2e-10, 1 + 4e-16])      # differs in the last digits only: still different
        return ("EChangeDur", via[0], via[1], names[i], d, False) if via else ("BChangeDur", reg, names[i], d, False)
    if k < 0.5:
        p = rng.choice(PARAMS[funcs[i]])
        v = rng.choice([0.5, -0.25, 1.5, 0.5 * (1 + 3e-10), 1.5 + 2e-12])          # also values a hair away from the common ones
        return ("EChangeArg", via[0], via[1], names[i], p, v, False) if via else ("BChangeArg", reg, names[i], p, v, False)
    if k < 0.6:
        return ("BSetSegMarker", reg, names[i], (rng.choice([0, 1 / SR]), rng.choice([1 / SR, 2 / SR, 0])), rng.choice([1, 2]))
    if k < 0.7:
        return ("BSetMarker", reg, rng.choice([1, 2]), [(rng.choice([0, 1 / SR]), 2 / SR)])
    if k < 0.8:
        f = rng.choice(["ramp", "ua"])
        return ("BInsert", reg, rng.choice([0, -1]), f, rnd_args(rng, f, 2 / SR), 2 / SR, rng.choice([None, "a", "z"]))
    if k < 0.9 and len(names) > 1:
        return ("BRemove", reg, names[i])
    return ("BRemoveSegMarker", reg, names[i], rng.choice([1, 2]))


def gen(rng, kind):
    regs = Regs()
    SR = rng.choice([100, 1000.0, 1e4, 1e9, 2.4e9])       # GS/s rates: one sample is below numpy's default tolerances
    N = rng.randint(6, 24)
    muts = []
    wait_pad = rng.choice([None, None, 4, 5, 6])
    if kind == "bp":
        r, prog, names, funcs, sizes = base_bp(rng, regs, SR, N, wait_pad)
        x, y = regs.B(), regs.B()
        prog += [("BCopy", r, x), ("BCopy", r, y), ("OBEq", r, x), ("OBEq", x, y)]
        for _ in range(rng.choice([0, 1, 1, 2])):
            m = bp_mutation(rng, x, names, funcs, sizes, SR)
            prog.append(m)
            muts.append(m)
            if rng.random() < 0.35:
                prog.append((m[0], y) + tuple(m[2:]))           # same mutation on the other side
                muts.append(("both",))
            elif rng.random() < 0.3:
                m2 = bp_mutation(rng, y, names, funcs, sizes, SR)
                prog.append(m2)
                muts.append(m2)
        twin = None
        if rng.random() < 0.2:
            # a twin built from the same segments that differs in ONE segment name only: not equal (its description differs)
            twin = regs.B()
            k = rng.randrange(sum(1 for o in prog if o[0] == "BInsert" and o[1] == r and o[3] != "waituntil"))
            j = 0
            for o in list(prog):
                if o[0] in ("BInsert", "BSetSR", "BSetMarker") and o[1] == r:
                    o2 = (o[0], twin) + tuple(o[2:])
                    if o[0] == "BInsert" and o[3] != "waituntil":
                        if j == k:
                            o2 = o2[:6] + ("renamed",)
                        j += 1
                    prog.append(o2)
            prog.insert(len(prog) - sum(1 for o in prog if o[1:2] == (twin,)), ("BNew", twin))
            prog += [("OBEq", r, twin), ("OBEq", twin, r)]
        prog += [("OBEq", x, y), ("OBEq", y, x), ("OBEq", x, x), ("OBDescr", x), ("OBDescr", y), ("OBForge", x), ("OBForge", y)]
        return {"prog": prog, "kind": "bp", "muts": [list(map(str, m)) for m in muts], "pair": [x, y], "twin": [r, twin] if twin is not None else None}
    chans = rng.sample([1, 2, 3, "A"], rng.randint(1, 2))
    e = regs.E()
    prog = [("ENew", e)]
    meta = {}
    for c in chans:
        r, ops, names, funcs, sizes = base_bp(rng, regs, SR, N, wait_pad)
        prog += ops + [("EAddBp", e, c, r)]
        meta[c] = (names, funcs, sizes)
        if rng.random() < 0.4:
            prog.append(("EAddFlags", e, c, [rng.choice([0, 1, 2]) for _ in range(4)]))
    if kind == "el":
        x, y = regs.E(), regs.E()
        prog += [("ECopy", e, x), ("ECopy", e, y), ("OEEq", e, x)]
        if rng.random() < 0.4:
            # forging only ONE of two equal objects is a query, not a mutation: they stay equal
            prog += [("OEEq", x, y), ("OEArrays", x, rng.random() < 0.5), ("OEEq", x, y), ("OEEq", e, x)]
        for _ in range(rng.choice([0, 1, 1, 2])):
            c = rng.choice(chans)
            k = rng.random()
            if k < 0.12:
                k = 0.8                         # a flags mutation (explicit all-off flags vs. no flags included)
            if k < 0.7:
                m = bp_mutation(rng, None, *meta[c], SR, via=(x, c))
                while m[0][0] != "E":
                    m = bp_mutation(rng, None, *meta[c], SR, via=(x, c))
            elif k < 0.85:
                m = ("EAddFlags", x, c, rng.choice([[rng.choice([0, 1, 2, 3]) for _ in range(4)], [0, 0, 0, 0], ["", "", "", ""]]))
            else:
                r2, ops, *_ = base_bp(rng, regs, SR, N, wait_pad)
                prog += ops
                m = ("EAddBp", x, c, r2)
            prog.append(m)
            muts.append(m)
            if rng.random() < 0.35:
                prog.append((m[0], y) + tuple(m[2:]))
                muts.append(("both",))
        prog += [("OEValidate", x), ("OEEq", x, y), ("OEEq", y, x), ("OEEq", x, x), ("OEPoints", x), ("OEEq", x, y),
                 ("OEDescr", x), ("OEDescr", y), ("OEArrays", x, False), ("OEArrays", y, False)]
        return {"prog": prog, "kind": "el", "muts": [list(map(str, m)) for m in muts], "pair": [x, y]}
    s = regs.S()
    prog += [("SNew", s), ("SSetSR", s, SR), ("SAddElement", s, 1, e)]
    if rng.random() < 0.5:
        prog.append(("SAddElement", s, 2, e))
    for c in chans:
        prog += [("SSetAmp", s, c, 2), ("SSetOff", s, c, 0)]
    x, y = regs.S(), regs.S()
    prog += [("SCopy", s, x), ("SCopy", s, y), ("OSEq", s, x)]
    for _ in range(rng.choice([0, 1, 1, 2])):
        c = rng.choice(chans)
        k = rng.random()
        if k < 0.3:
            m0 = bp_mutation(rng, None, *meta[c], SR, via=(x, c))
            while m0[0][0] != "E":
                m0 = bp_mutation(rng, None, *meta[c], SR, via=(x, c))
            m = ("SElemChangeArg", x, 1) + tuple(m0[2:]) if m0[0] == "EChangeArg" else ("SElemChangeDur", x, 1) + tuple(m0[2:])
        elif k < 0.5:
            m = ("SSetSequencing", x, 1, rng.choice(["twait", "nrep", "jump_input", "jump_target", "goto"]), rng.choice([0, 1, 2]))
        elif k < 0.6:
            m = ("SSetAmp", x, c, rng.choice([2, 3]))
        elif k < 0.7:
            m = ("SSetOff", x, c, rng.choice([0, 0.5]))
        elif k < 0.8:
            m = ("SSetDelay", x, c, rng.choice([0, 2 / SR, 5 / SR]))
        elif k < 0.9:
            m = ("SSetFilter", x, c, rng.choice(["HP", "LP"]), rng.choice([1, 2]), SR * 0.1, None)
        else:
            m = ("SSetSR", x, rng.choice([SR, SR * 2]))
        prog.append(m)
        muts.append(m)
        if rng.random() < 0.35:
            prog.append((m[0], y) + tuple(m[2:]))
            muts.append(("both",))
    if rng.random() < 0.15:
        # the same element added at DIFFERENT new positions: equally many positions, different position sets
        npos_now = 2 if any(o[0] == "SAddElement" and o[1] == s and o[2] == 2 for o in prog) else 1
        m1, m2 = ("SAddElement", x, npos_now + 1, e), ("SAddElement", y, npos_now + 2, e)
        prog += [m1, m2]
        muts += [m1, m2]
    prog += [("OSEq", x, y), ("OSEq", y, x), ("OSEq", x, x), ("OSPoints", x), ("OSEq", x, y), ("OSDescr", x), ("OSDescr", y),
             ("OSForge", x, True, True, False), ("OSForge", y, True, True, False)]
    return {"prog": prog, "kind": "seq", "muts": [list(map(str, m)) for m in muts], "pair": [x, y]}


def oracle(case, impl):
    from harness import lang
    out = []
    prog = case["prog"]
    key = {"bp": "B", "el": "E", "seq": "S"}[case["kind"]]
    x, y = case["pair"]
    eqs = [(op, r) for op, r in zip(prog, impl) if op[0] == f"O{key}Eq"]
    first = eqs[0][1]
    if first is not True:
        out.append(f"a fresh copy does not compare equal to its original (== gave {first})")
    xy = [r for op, r in eqs if op[1:] == [x, y]]
    yx = [r for op, r in eqs if op[1:] == [y, x]]
    xx = [r for op, r in eqs if op[1:] == [x, x]]
    if xx and xx[0] is not True:
        out.append(f"== is not reflexive: {xx[0]}")
    if xy and yx and xy[-1] != yx[-1] and not (isinstance(xy[-1], lang.Err) and isinstance(yx[-1], lang.Err)):
        out.append(f"== is not symmetric: {xy[-1]} vs {yx[-1]}")
    if case["kind"] != "bp" and len(xy) > 1 and xy[-2] != xy[-1] and not isinstance(xy[-2], lang.Err):
        out.append("== changed after a read-only query")
    if len(xy) == 4 and (xy[0] is not True or xy[1] is not True):
        out.append(f"two copies of one element compared {xy[0]} before and {xy[1]} after forging one of them (a query)")
    if case.get("twin"):
        for op, r in eqs:
            if sorted(op[1:]) == sorted(case["twin"]) and r is not False:
                out.append(f"blueprints that differ in one segment name compare {r}")
    descs = [r for op, r in zip(prog, impl) if op[0] == f"O{key}Descr"]
    fk = {"bp": "OBForge", "el": "OEArrays", "seq": "OSForge"}[case["kind"]]
    fs = [r for op, r in zip(prog, impl) if op[0] == fk]
    if not case["muts"] and xy and xy[-1] is not True:
        out.append(f"a copy no longer compares equal to its sibling copy although neither was mutated (== gave {xy[-1]})")
    fs = fs[-2:]
    if xy and xy[-1] is True:
        d0, d1 = descs
        if json.loads(json.dumps(d0)) != json.loads(json.dumps(d1)):
            out.append("objects compare equal but their descriptions differ")
        f0, f1 = fs
        if isinstance(f0, lang.Err) != isinstance(f1, lang.Err):
            out.append("objects compare equal but only one of them forges")
        elif not isinstance(f0, lang.Err):
            if case["kind"] == "bp":
                f0, f1 = {k: v for k, v in f0.items() if k != "calls"}, {k: v for k, v in f1.items() if k != "calls"}
            if lang.compare_plain_dict(f0, f1):
                out.append("objects compare equal but forge to different arrays")
    return out[:4]


def nontrivial_key(case, impl):
    if not case["muts"]:
        return None
    return (case["kind"], tuple(tuple(m) for m in case["muts"]))


# ---------------------------------------------------------------- same-named functions (implementation only)
def extra_checks(ctx):
    """Equality over pulse shapes that share their __module__ / __qualname__ (closures of one factory, lambdas of one
    scope, a notebook cell run twice) but behave differently: descriptions cannot tell them apart, so `==` has to.
    The statement checked on the implementation alone: whenever two blueprints / elements / sequences compare equal,
    they forge to identical arrays; the same object (and a copy) compares equal."""
    import random
    import numpy as np
    from broadbean.blueprint import BluePrint
    from broadbean.element import Element
    from broadbean.sequence import Sequence
    rng = random.Random(ctx["seed"] + 9)

    def make_decay(tau):
        def decay(ampl, SR, npts):
            t = np.arange(int(npts)) / SR
            return ampl * np.exp(-t / tau)
        return decay

    evals, fails = 0, []
    taus = [0.1, 0.4]
    shapes = [make_decay(t) for t in taus] + [lambda ampl, SR, npts: ampl * np.ones(int(npts)),
                                               lambda ampl, SR, npts: -ampl * np.ones(int(npts)), make_decay(0.1)]
    n = len(shapes) ** 2
    for pick in [(i, j) for i in range(len(shapes)) for j in range(len(shapes))]:      # every ordered pair, the diagonal included
        same_object = pick[0] == pick[1]
        objs = []
        for k in range(2):
            bp = BluePrint()
            bp.insertSegment(0, shapes[pick[k]], (0.5,), name="s", dur=0.2)
            bp.insertSegment(1, shapes[pick[k]], (0.25,), name="t", dur=0.1)
            bp.setSR(100)
            el = Element()
            el.addBluePrint(1, bp)
            sq = Sequence()
            sq.setSR(100)
            sq.addElement(1, el)
            sq.setChannelAmplitude(1, 2)
            sq.setChannelOffset(1, 0)
            objs.append((bp, el, sq))
        forged = [el.getArrays()[1]["wfm"] for _bp, el, _sq in objs]
        identical = np.array_equal(forged[0], forged[1])
        for kind, a, b in (("blueprints", objs[0][0], objs[1][0]), ("elements", objs[0][1], objs[1][1]),
                           ("sequences", objs[0][2], objs[1][2])):
            evals += 1
            eq, eq2 = (a == b), (b == a)
            if eq != eq2:
                fails.append(f"{kind}: a == b is {eq} but b == a is {eq2} (same-named functions)")
            if eq and not identical:
                fails.append(f"{kind} built from two different functions that share their qualified name "
                             f"({shapes[pick[0]].__qualname__}) compare equal but forge to different arrays")
            if same_object and not eq:
                fails.append(f"{kind} built from the same function object with the same arguments compare unequal")
            if not (a == a.copy()):
                fails.append(f"{kind}: a copy does not compare equal to its original (user-defined closure as pulse shape)")
    for f in fails[:2]:
        ctx["report"]("equality over same-named functions: " + f[:300], {"family_failure": f}, True)
    return {"evaluations": evals, "distinct_nontrivial": n, "samples": [{"same_named_function_pairs": n}]}
