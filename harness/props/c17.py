"""C17 - parameter sweeps change exactly the addressed values, step by step."""
import copy
from fractions import Fraction

from .common import PARAMS
from .elgen import CHAN_POOL, Regs

ID = "C17"
ALLOWED_AXIOMS = []
PROPS_FILES = ["C17", "C17b"]     # C17b: contents of makeLinearlyVaryingSequence and repeatAndVarySequence
RULE = ("base elements of 1-3 blueprint channels, each blueprint [seg, waituntil(T), seg] or plain segments so that a "
        "duration change in front of the wait keeps the element valid; N = 1..4 simultaneous variations (same or "
        "different channels, segments, arguments by name or position, 'duration'), M = 1..6 steps of arbitrary values; "
        "makeVaryingSequence, repeatAndVarySequence on a 1-3 position sequence built from such elements (with AWG "
        "settings and sequencing), and makeLinearlyVaryingSequence with start/stop/step triples; mismatched list "
        "lengths. Non-trivial: N >= 2 and M >= 2; distinct by (variations, values).")
TRUST = ["C17 statement oracle: every position's description must equal the base description with exactly the "
         "addressed values substituted; input description unchanged; ValueError on mismatched lengths"]


def generate(rng, tier):
    n = 120 if tier == "quick" else 3000
    for _ci in range(n):
        yield gen_case(rng)
    # every shape of mismatched list lengths, once per run for each tool that takes lists
    for how in ("ragged", "poss", "iters_short", "iters_long", "names", "chans", "args"):
        yield gen_case(rng, force=("repeat", how))
    for which in (0, 1, 2, 3, 4):
        yield gen_case(rng, force=("varying", which))


def plain_element(rng, regs, SR, chans):
    """No waituntil: a duration sweep is only valid when applied to every channel at once."""
    e = regs.E()
    ops = [("ENew", e)]
    meta = {}
    from .common import rnd_args
    d1, d2 = rng.randint(2, 8) / SR, rng.randint(2, 10) / SR
    for c in chans:
        r = regs.B()
        f1, f2 = rng.choice(["ramp", "ua"]), rng.choice(["ramp", "uc"])
        ops += [("BNew", r), ("BInsert", r, -1, f1, rnd_args(rng, f1, d1), d1, "first"),
                ("BInsert", r, -1, f2, rnd_args(rng, f2, d2), d2, "last"), ("BSetSR", r, SR), ("EAddBp", e, c, r)]
        if rng.random() < 0.4:          # sequencer flags of the base element must survive every sweep step
            ops.append(("EAddFlags", e, c, [rng.choice([0, 1, 2, 3, 4]) for _ in range(4)]))
        meta[str(c)] = {"first": f1, "last": f2, "d2": d2}
    return e, ops, meta


def base_element(rng, regs, SR, chans, T):
    """Every channel: [f1 (dur d1), waituntil(T), f2 (dur d2)] with aligned durations; returns meta per channel."""
    e = regs.E()
    ops = [("ENew", e)]
    meta = {}
    d2 = rng.randint(2, 10) / SR                 # common to all channels: every channel lasts T + d2
    for c in chans:
        r = regs.B()
        f1, f2 = rng.choice(["ramp", "sine", "ua", "ub2"]), rng.choice(["ramp", "gaussian", "uc"])
        from .common import rnd_args
        d1 = rng.randint(2, 8) / SR
        ops += [("BNew", r), ("BInsert", r, -1, f1, rnd_args(rng, f1, d1), d1, "first"),
                ("BInsert", r, -1, "waituntil", [T], None, None),
                ("BInsert", r, -1, f2, rnd_args(rng, f2, d2), d2, "last"), ("BSetSR", r, SR), ("EAddBp", e, c, r)]
        if rng.random() < 0.4:
            ops.append(("EAddFlags", e, c, [rng.choice([0, 1, 2, 3, 4]) for _ in range(4)]))
        d2b = d2
        meta[str(c)] = {"first": f1, "last": f2, "d2": d2b}
    return e, ops, meta


def variation(rng, SR, chans, meta, M, T):
    c = rng.choice(chans)
    seg = rng.choice(["first", "last"])
    f = meta[str(c)][seg]
    ps = PARAMS[f]
    kind = rng.random()
    if kind < 0.3 and seg == "first":
        arg = "duration"
        vals = [rng.randint(2, 14) / SR for _ in range(M)]          # absorbed by the waituntil: still valid
    else:
        arg = rng.choice(ps + list(range(len(ps))))
        vals = [rng.choice([0.5, -0.25, rng.uniform(-1, 1), 1]) for _ in range(M)]
        if f in ("gaussian",) and (arg in ("sigma", 1)):
            vals = [abs(v) + 0.01 for v in vals]
    return c, seg, arg, vals


def gen_case(rng, force=None):
    regs = Regs()
    SR = rng.choice([100, 1000.0, 1e4])
    nch = rng.randint(1, 3)
    chans = rng.sample([1, 2, 3, "A", "chB"], nch)
    T = 20 / SR
    kind = rng.choice(["varying", "varying", "repeat", "linear"])
    if force:
        kind = force[0]
    joint = kind == "varying" and len(chans) > 1 and rng.random() < 0.3 and not force
    if joint:
        e, prog, meta = plain_element(rng, regs, SR, chans)
        M = rng.randint(2, 5)
        durs = [rng.randint(2, 14) / SR for _ in range(M)]
        vs = [(c, "first", "duration", list(durs)) for c in chans]      # every step valid only with all channels changed
        if rng.random() < 0.5:
            vs.append((chans[0], "last", PARAMS[meta[str(chans[0])]["last"]][0], [rng.choice([0.5, -0.25, 1]) for _ in range(M)]))
        Nv = len(vs)
    else:
        e, prog, meta = base_element(rng, regs, SR, chans, T)
        Nv, M = rng.randint(1, 4), rng.randint(1, 6)
        vs = [variation(rng, SR, chans, meta, M, T) for _ in range(Nv)]
    info = {"kind": kind, "chans": [str(c) for c in chans]}
    if kind == "varying":
        s = regs.S()
        args = [[v[0] for v in vs], [v[1] for v in vs], [v[2] for v in vs], [v[3] for v in vs]]
        bad = (rng.random() < 0.15 and not joint) or bool(force)
        if bad:
            which = rng.randrange(4)
            if force:
                which = force[1]
            if which == 4:
                args[3] = args[3][:-1]                                      # fewer value lists than addressed places
            elif which == 3 and Nv > 1:
                args[3] = [list(x) for x in args[3]]
                args[3][0] = args[3][0][:-1] if M > 1 else args[3][0] + [0.5]
            else:
                args[which] = args[which][:-1] if which != 3 else args[which] + [[0.5] * M]
                if Nv == 1 and which != 3:
                    pass
        prog += [("OEDescr", e), ("TVarying", e, *args, s), ("OEDescr", e), ("OSLen", s), ("OSCheck", s), ("OSDescr", s),
                 ("OSForge", s, True, True, False)]
        info.update({"vs": vs, "bad": bad, "M": M})
    elif kind == "linear":
        s = regs.S()
        c, seg, arg, _ = vs[0]
        cnt = rng.randint(1, 6)
        step = rng.choice([0.1, 0.25, 0.05])
        if rng.random() < 0.5:
            start = rng.choice([0.1, 0.5, 1])
            stop = start + step * (cnt - 1)
        else:
            start = rng.choice([2, 2.5])
            stop = start - step * (cnt - 1)          # stays well above zero: no cancellation in linspace
        if arg == "duration":
            start, step = 2 / SR, 1 / SR
            stop = start + step * (cnt - 1)
        prog += [("OEDescr", e), ("TLinear", e, c, seg, arg, start, stop, step, s), ("OEDescr", e), ("OSLen", s), ("OSDescr", s)]
        info.update({"lin": (c, seg, arg, start, stop, step), "M": cnt})
    else:
        L = rng.randint(1, 3)
        q = regs.S()
        prog += [("SNew", q), ("SSetSR", q, SR)]
        metas = {}
        shared = None
        for pos in range(1, L + 1):
            if shared is not None and rng.random() < 0.4:
                e2, m2 = shared                                   # the SAME element object at a second position
                prog.append(("SAddElement", q, pos, e2))
            else:
                e2, ops, m2 = base_element(rng, regs, SR, chans, T)
                prog += ops + [("SAddElement", q, pos, e2)]
                shared = (e2, m2)
            metas[pos] = m2
            if rng.random() < 0.5:
                prog.append(("SSetSequencing", q, pos, rng.choice(["goto", "jump_target"]), rng.choice([0, 1, L])))
        for c in chans:
            prog += [("SSetAmp", q, c, 2), ("SSetOff", q, c, 0)]
        poss = [rng.randint(1, L) for _ in range(Nv)]
        vs = [variation(rng, SR, chans, metas[p], M, T) for p in poss]
        s = regs.S()
        bad = rng.random() < 0.15 or bool(force)
        a_poss = poss
        iters = [list(v[3]) for v in vs]
        a_ch, a_nm, a_ar = [v[0] for v in vs], [v[1] for v in vs], [v[2] for v in vs]
        if bad:
            how = rng.choice(["ragged", "poss", "iters_short", "iters_long", "names", "chans", "args"])
            if force:
                how = force[1]
            if how == "ragged" and Nv > 1:
                iters[0] = iters[0][:-1] if M > 1 else iters[0] + [0.5]      # value lists of different lengths
            elif how == "iters_short":
                iters = iters[:-1]                                          # fewer value lists than addressed places
            elif how == "iters_long":
                iters = iters + [list(iters[0])]                            # more value lists than addressed places
            elif how == "names":
                a_nm = a_nm[:-1]
            elif how == "chans":
                a_ch = a_ch[:-1]
            elif how == "args":
                a_ar = a_ar[:-1]
            else:
                a_poss = poss[:-1]                                          # one list of addresses shorter than the others
        prog += [("OSDescr", q), ("TRepeat", q, a_poss, a_ch, a_nm, a_ar,
                                   iters, s), ("OSDescr", q), ("OSLen", s), ("OSCheck", s), ("OSDescr", s)]
        info.update({"vs": vs, "poss": poss, "L": L, "M": M, "bad": bad})
    return {"prog": prog, **info}


def subst(desc_ch, seg, arg, val):
    """desc_ch: blueprint description; returns a copy with the addressed value replaced."""
    d = copy.deepcopy(desc_ch)
    for k, s in d.items():
        if k.startswith("segment_") and s["name"] == seg:
            if arg == "duration":
                s["durations"] = val
            else:
                keys = list(s["arguments"])
                s["arguments"][arg if isinstance(arg, str) else keys[arg]] = val
    return d


def close(a, b):
    if isinstance(a, dict) and isinstance(b, dict):
        return set(a) == set(b) and all(close(a[k], b[k]) for k in a)
    if isinstance(a, (list, tuple)) and isinstance(b, (list, tuple)):
        return len(a) == len(b) and all(close(x, y) for x, y in zip(a, b))
    if isinstance(a, (int, float)) and isinstance(b, (int, float)) and not isinstance(a, bool):
        return a == b or abs(a - b) <= 1e-9 * max(abs(a), abs(b))
    return a == b


def oracle(case, impl):
    from harness import lang
    out = []
    prog = case["prog"]
    R = {}
    for op, r in zip(prog, impl):
        R.setdefault(op[0], []).append(r)
    kind = case["kind"]
    if kind in ("varying", "linear"):
        before, after = R["OEDescr"][0], R["OEDescr"][1]
        if before != after:
            out.append("the base element was modified by the sweep tool")
        tool = R["TVarying" if kind == "varying" else "TLinear"][0]
        if kind == "varying" and case["bad"]:
            if not (isinstance(tool, lang.Err) and tool.cls == "ValueError"):
                out.append(f"mismatched list lengths were not rejected with ValueError: {tool}")
            return out
        if isinstance(tool, lang.Err):
            return out + [f"sweep tool raised {tool.cls} on valid input"]
        M = case["M"]
        if R["OSLen"][0] != M:
            out.append(f"result has {R['OSLen'][0]} positions, expected {M}")
            return out
        desc = R["OSDescr"][0]
        if kind == "varying" and R["OSCheck"][0] is not True:
            out.append("result of makeVaryingSequence is not consistent")
        for m in range(M):
            want = copy.deepcopy(before)
            if kind == "varying":
                for c, seg, arg, vals in case["vs"]:
                    want[str(c)] = subst(want[str(c)], seg, arg, vals[m])
            else:
                c, seg, arg, start, stop, step = case["lin"]
                v = start if M == 1 else float(Fraction(start) + m * (Fraction(stop) - Fraction(start)) / (M - 1))
                want[str(c)] = subst(want[str(c)], seg, arg, v)
            got = desc[str(m + 1)]["channels"]
            if not close(got, want):
                out.append(f"position {m + 1} is not the base element with exactly the step-{m} values applied")
        return out[:3]
    # repeatAndVary
    before, after = R["OSDescr"][0], R["OSDescr"][1]
    if before != after:
        out.append("the input sequence was modified by repeatAndVarySequence")
    tool = R["TRepeat"][0]
    if case["bad"]:
        if not (isinstance(tool, lang.Err) and tool.cls == "ValueError"):
            out.append(f"mismatched list lengths were not rejected with ValueError: {tool}")
        return out
    if isinstance(tool, lang.Err):
        return out + [f"repeatAndVarySequence raised {tool.cls} on valid input"]
    L, M = case["L"], case["M"]
    if R["OSLen"][0] != L * M:
        return out + [f"result has {R['OSLen'][0]} positions, expected {L}*{M}"]
    desc = R["OSDescr"][2]
    if desc["awgspecs"] != before["awgspecs"]:
        out.append("result does not carry the input's AWG settings")
    for m in range(M):
        for p in range(1, L + 1):
            want = copy.deepcopy(before[str(p)])
            for (c, seg, arg, vals), pp in zip(case["vs"], case["poss"]):
                if pp == p:
                    want["channels"][str(c)] = subst(want["channels"][str(c)], seg, arg, vals[m])
            for k in ("Go to", "jump_target"):
                if want["sequencing"][k] > 0:
                    want["sequencing"][k] += m * L
            got = desc[str(m * L + p)]
            if not close(got, want):
                out.append(f"result position {m * L + p} is not input position {p} with the step-{m} values applied")
    return out[:3]


def nontrivial_key(case, impl):
    if case["kind"] == "linear":
        return ("lin", tuple(map(str, case["lin"])))
    if len(case["vs"]) < 2 or case["M"] < 2:
        return None
    return (case["kind"], tuple((str(c), s, str(a), tuple(v)) for c, s, a, v in case["vs"]), tuple(case.get("poss", [])))


def extra_checks(ctx):
    """Sweeps over pulse functions that share their name (functions from one factory / redefined in a notebook) but not
    their parameter order: the swept argument, addressed by NAME, must be the one that changes (implementation only)."""
    import random
    import numpy as np
    import broadbean as bb
    from broadbean import tools
    from .c05 import _family
    rng = random.Random(ctx["seed"] + 11)
    fam = _family()
    fails, evals = [], 0
    for _ in range(6 if ctx["tier"] == "quick" else 120):
        (f1, p1), (f2, p2) = fam[2], fam[3]                 # (start, stop) and (stop, start)
        if rng.random() < 0.5:
            (f1, p1), (f2, p2) = (f2, p2), (f1, p1)
        SR = 100
        el = bb.Element()
        for ch, (f, vals) in enumerate(((f1, (1.0, 2.0)), (f2, (3.0, 4.0))), start=1):
            bp = bb.BluePrint()
            bp.setSR(SR)
            bp.insertSegment(0, f, vals, name="seg", dur=0.08)
            el.addBluePrint(ch, bp)
        warm = el.copy()
        warm.changeArg(1, "seg", p1[0], 9.0)                # an earlier edit through the first function
        arg = rng.choice(p2)
        vals = [float(rng.randint(10, 99)) for _ in range(rng.randint(2, 4))]
        seq = tools.makeVaryingSequence(el, [2], ["seg"], [arg], [vals])
        evals += 1
        for m, v in enumerate(vals, start=1):
            got = list(np.asarray(seq.element(m).getArrays()[2]["wfm"])[:2])
            want = [3.0, 4.0]
            want[p2.index(arg)] = v
            if got != want:
                fails.append(f"makeVaryingSequence over argument {arg!r} of a function with parameters {p2} (a same-named function "
                             f"with parameters {p1} was edited before): step {m} holds {got}, expected {want}")
                break
    for f in fails[:2]:
        ctx["report"]("sweep over same-named functions: " + f[:300], {"family_failure": f}, True)
    return {"evaluations": evals, "distinct_nontrivial": evals, "samples": [{"same_named_function_sweeps": evals}]}
