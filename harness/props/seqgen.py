"""Consistent-sequence builder shared by C10, C11, C14-C18."""
from fractions import Fraction

from .elgen import CHAN_POOL, Regs, aligned_segments, const_rle, marker_rle, safe_args


def marked_bp(rng, regs, SR, N, funcs, waits=False, nseg=None):
    """A blueprint whose marker 1 specs are absolute and marker 2 specs segment-bound, all windows well
    inside the waveform (so that a channel delay has a simple, documented effect on each)."""
    segs = aligned_segments(rng, SR, N, nseg=nseg, funcs=funcs, waits=waits)
    segs = [(f, (a if f == "waituntil" else safe_args(rng, f, float(d))), d, nm, n) for f, a, d, nm, n in segs]
    r = regs.B()
    ops = [("BNew", r)]
    names = []
    for f, a, d, nm, _n in segs:
        ops.append(("BInsert", r, -1, f, list(a), d, nm))
        names.append(nm if nm else f)
    ops.append(("BSetSR", r, SR))
    from .common import uniquify
    names = uniquify(names)
    if rng.random() < 0.7 and N >= 6:
        k0 = rng.randint(0, N - 4)
        ln = rng.randint(1, min(6, N - k0 - 1))
        ops.append(("BSetMarker", r, 1, [(k0 / SR, ln / SR)]))
    start = 0
    for (f, _a, _d, _nm, n), nm in zip(segs, names):
        if rng.random() < 0.5 and n >= 3:
            dl = rng.randint(0, n - 2)
            ln = rng.randint(1, n - dl - 1)
            ops.append(("BSetSegMarker", r, nm, (dl / SR, ln / SR), 2))
        start += n
    return r, ops, names, segs


def delay_value(rng, SR):
    """0 or >= 2 whole samples; products such as 0.29*100 that are not exactly representable included."""
    if SR == 100 and rng.random() < 0.3:
        return rng.choice([0.29, 0.07, 0.57, 0.03])
    k = rng.choice([0, 0, 2, 3, 5, 8, 13, 21, 40])
    d = float(Fraction(k) / Fraction(SR))
    return d


def build_sequence(rng, regs, SR, N, chans, npos, kinds, funcs, subs=False, waits=False, flags=False,
                   shuffle_chans=True, nseg=None):
    """A consistent sequence; returns (register, ops, meta)."""
    s = regs.S()
    ops = [("SNew", s), ("SSetSR", s, SR)]
    meta = {"positions": {}}
    order = list(range(1, npos + 1))
    rng.shuffle(order)
    for pos in order:
        as_sub = subs and rng.random() < 0.3
        nel = rng.randint(1, 2) if as_sub else 1
        target = s
        if as_sub:
            target = regs.S()
            ops += [("SNew", target), ("SSetSR", target, SR)]
        for k in range(1, nel + 1):
            ch = list(chans)
            if shuffle_chans:
                rng.shuffle(ch)
            e = regs.E()
            ops.append(("ENew", e))
            for c in ch:
                if kinds[c] == "bp":
                    r, o, _names, _segs = marked_bp(rng, regs, SR, N, funcs, waits=waits, nseg=nseg)
                    ops += o + [("EAddBp", e, c, r)]
                    if flags and rng.random() < 0.5:
                        ops.append(("EAddFlags", e, c, [rng.choice([0, 1, 2, 3, 4, "", "H", "L", "T", "P"]) for _ in range(4)]))
                else:
                    ops.append(("EAddArray", e, c, const_rle(rng, N, (0.0, 0.25, -0.25, 0.125)), SR,
                                [("m1", marker_rle(rng, N)), ("m2", marker_rle(rng, N))]))
            ops.append(("SAddElement", target, k if as_sub else pos, e))
        if as_sub:
            ops.append(("SAddSub", s, pos, target))
        meta["positions"][pos] = "sub" if as_sub else "el"
    return s, ops, meta
