"""C14 - AWG5014 package: normalised in-range samples, faithful sequencing, exact slicing."""
import numpy as np

from .elgen import CHAN_POOL, Regs, marker_rle

ID = "C14"
ALLOWED_AXIOMS = ["ClassicalDedekindReals.sig_forall_dec", "ClassicalDedekindReals.sig_not_dec",
                  "FunctionalExtensionality.functional_extensionality_dep"]      # the real-number part (Props/C14n.v) only
PROPS_FILES = ["C14", "C14n", "C15b"]
T_GEN = ["OutputGuardsGen.v"]
T_FILES = ["Generated/OutputGuardsGen", "Numeric/Rescale", "Numeric/GuardConstants", "Props/C14n"]


def search_failing_input(ctx):
    return []          # the generated cases below are the search: their oracle failures are reported with the input

RULE = ("consistent sequences of 1-3 positions and 1-4 channels (blueprints of constant/ramp segments and raw arrays), "
        "dyadic amplitudes > 0 and offsets (zero and non-zero) so that the channel range is exact in binary64; per "
        "(position, channel) the waveform peak is placed inside, exactly at, or one ulp-scale step outside the range; "
        "sequencing values drawn around every instrument boundary (wait -1..2, repetitions -1,0,1,65535..65537, jump "
        "-2..N+1, goto -1..N+1); the package is read back through pkg[:], pkg[i], pkg[i:i+1] and random slices with "
        "non-negative bounds (including out-of-range ones). Non-trivial: >= 2 channels or positions with a non-zero "
        "offset or a boundary case; distinct by (amplitudes, offsets, peak placement, sequencing, index).")
TRUST = ["C14 statement oracle: delivered sample == (forged voltage - offset)/(amplitude/2) within 1e-9, in [-1,1]; "
         "ValueError iff a voltage leaves [off-ampl/2, off+ampl/2]; SequencingError iff a setting leaves its range; "
         "pkg[i] == pkg[i:i+1], pkg[:] in Sequence.channels order with the four sequencing lists intact"]


def generate(rng, tier):
    n = 150 if tier == "quick" else 4000
    for _ci in range(n):
        yield gen_case(rng)
    # every instrument limit, at the limit and one beyond, once per run (deterministic sweep)
    for fld, vals in (("twait", [1, 2, -1]), ("nrep", [65536, 65537, -1]), ("jump_target", ["N", "N+1", -1, -2]),
                      ("goto", ["N", "N+1", 0, -1])):
        for v in vals:
            yield gen_case(rng, force=(fld, v))


def gen_case(rng, force=None):
    regs = Regs()
    SR = rng.choice([100, 1000.0, 1e4, 64, 1024])
    N = rng.randint(6, 30)
    nch = rng.randint(1, 4)
    npos = rng.randint(1, 3)
    chans = rng.sample(CHAN_POOL, nch)
    ampl = {c: rng.choice([1, 2, 4, 0.5, 3]) for c in chans}
    off = {c: rng.choice([0, 0, 0.5, -0.25, 1]) for c in chans}
    kinds = {c: rng.choice(["bp", "bp", "arr"]) for c in chans}
    s = regs.S()
    prog = [("SNew", s), ("SSetSR", s, SR)]
    modes = {}
    # about half of the cases stay completely inside the ranges (the package is produced and examined in full);
    # the others leave a range at exactly one (position, channel)
    klass = rng.choice(["inside"] * 9 + ["voltage"] * 6 + ["sequencing"] * 5)
    if force:
        klass = "sequencing"
    any_out = klass != "voltage"
    order = list(range(1, npos + 1))
    rng.shuffle(order)                      # positions are filled in arbitrary order
    for pos in order:
        e = regs.E()
        prog.append(("ENew", e))
        ch = list(chans)
        rng.shuffle(ch)
        for c in ch:
            lo, hi = off[c] - ampl[c] / 2, off[c] + ampl[c] / 2
            mode = rng.choice(["in", "in", "in", "at_hi", "at_lo", "above", "below", "ulp_above", "ulp_below"])
            if mode in ("above", "below", "ulp_above", "ulp_below"):
                if any_out:
                    mode = "in"
                else:
                    any_out = True
            modes[f"{pos}:{c}"] = mode
            eps = ampl[c] / 1024
            peak = {"in": off[c] + ampl[c] / 8, "at_hi": hi, "at_lo": lo, "above": hi + eps, "below": lo - eps,
                    "ulp_above": float(np.nextafter(hi, np.inf)) if hi != 0 else 5e-324,
                    "ulp_below": float(np.nextafter(lo, -np.inf)) if lo != 0 else -5e-324}[mode]
            inner = [off[c], off[c] + ampl[c] / 4, off[c] - ampl[c] / 4]
            if kinds[c] == "bp":
                r = regs.B()
                prog.append(("BNew", r))
                cut = rng.randint(2, N - 4)
                cut2 = rng.randint(cut + 2, N - 2) if N - cut >= 6 else None
                sizes = [cut, (cut2 - cut) if cut2 else N - cut] + ([N - cut2] if cut2 else [])
                k_peak = rng.randrange(len(sizes))
                for k, n in enumerate(sizes):
                    if k == k_peak:
                        if rng.random() < 0.5:
                            prog.append(("BInsert", r, -1, "ua", [peak], n / SR, None))
                        else:
                            prog.append(("BInsert", r, -1, "ramp", [peak, rng.choice(inner)], n / SR, None))
                    else:
                        prog.append(("BInsert", r, -1, "ramp", [rng.choice(inner), rng.choice(inner)], n / SR, None))
                prog.append(("BSetSR", r, SR))
                if rng.random() < 0.5:
                    prog.append(("BSetMarker", r, rng.choice([1, 2]), [(rng.randint(0, N - 3) / SR, 2 / SR)]))
                prog.append(("EAddBp", e, c, r))
            else:
                n1 = rng.randint(1, N - 2)
                n2 = rng.randint(1, N - n1 - 1)
                w = [(rng.choice(inner), n1), (peak, n2), (rng.choice(inner), N - n1 - n2)]
                prog.append(("EAddArray", e, c, w, SR, [("m1", marker_rle(rng, N)), ("m2", marker_rle(rng, N))]))
        prog.append(("SAddElement", s, pos, e))
    if SR in (64, 1024) and rng.random() < 0.6:
        # channel delays, among them exact half samples (k + 0.5 with k even and odd: Python rounds half to even in
        # every path); power-of-two rates keep the products exact.  Differences stay >= 2 samples (C10's known finding)
        for c in chans:
            prog.append(("SSetDelay", s, c, rng.choice([0, 2.5, 6.5, 10, 13.5]) / SR))
    for c in chans:
        if rng.random() < 0.25:
            prog.append(("SSetRange", s, c, ampl[c], off[c]))        # the deprecated setChannelVoltageRange
        else:
            prog += [("SSetAmp", s, c, ampl[c]), ("SSetOff", s, c, off[c])]
    seq_bad = False
    seq_edge = klass == "sequencing"       # otherwise every sequencing value is inside its range
    for pos in range(1, npos + 1):
        if rng.random() < 0.6:
            fld = rng.choice(["twait", "nrep", "jump_target", "goto", "jump_input"])
            val = {"twait": rng.choice([0, 1, 1, 0, 2, -1]), "nrep": rng.choice([0, 1, 65535, 65536, 65536, 65537, -1]),
                   "jump_target": rng.choice([-1, 0, npos, npos, npos + 1, -2]),
                   "goto": rng.choice([0, npos, npos, 1, npos + 1, -1]), "jump_input": rng.choice([0, 3, 7])}[fld]
            if not seq_edge:
                val = {"twait": rng.choice([0, 1]), "nrep": rng.choice([1, 2, 65535, 65536]),
                       "jump_target": rng.choice([-1, 0, 1, npos]), "goto": rng.choice([0, 1, npos]),
                       "jump_input": rng.choice([0, 3, 7])}[fld]
            prog.append(("SSetSequencing", s, pos, fld, val))
    if force:
        fv = {"N": npos, "N+1": npos + 1}.get(force[1], force[1])
        prog = [o for o in prog if o[0] != "SSetSequencing"] + [("SSetSequencing", s, rng.randint(1, npos), force[0], fv)]
    i = rng.randrange(nch + 1)
    a = rng.randrange(nch + 1)
    prog += [("OSChannels", s), ("OSForge", s, True, True, False), ("OSAwg", s, ("slice", None, None, None)),
             ("OSAwg", s, i), ("OSAwg", s, ("slice", i, i + 1, None)),
             ("OSAwg", s, ("slice", rng.choice([None, 0, a]), rng.choice([None, a, nch, nch + 1, a + 1]), rng.choice([None, 1, 2]))),
             ("OSDescr", s)]
    return {"prog": prog, "kind": klass, "ampl": {str(k): v for k, v in ampl.items()},
            "off": {str(k): v for k, v in off.items()}, "modes": modes, "npos": npos, "nch": nch, "index": i}


def seq_ok(q, n):
    return q["twait"] in (0, 1) and 0 <= q["nrep"] <= 65536 and -1 <= q["jump_target"] <= n and 0 <= q["goto"] <= n


def oracle(case, impl):
    from harness import lang
    out = []
    prog = case["prog"]
    forged = [r for op, r in zip(prog, impl) if op[0] == "OSForge"][0]
    chans = [r for op, r in zip(prog, impl) if op[0] == "OSChannels"][0]
    awgs = [r for op, r in zip(prog, impl) if op[0] == "OSAwg"]
    if isinstance(forged, lang.Err) or isinstance(chans, lang.Err):
        return [f"forge/channels raised on a consistent sequence: {forged} {chans}"]
    n = case["npos"]
    outside = False
    for p in range(1, n + 1):
        for c in chans:
            v = np.asarray(forged[p]["content"][1]["data"][c]["wfm"])
            a, o = case["ampl"][str(c)], case["off"][str(c)]
            if v.max() > o + a / 2 or v.min() < o - a / 2:
                outside = True
    seqs = [forged[p]["sequencing"] for p in range(1, n + 1)]
    badseq = not all(seq_ok(q, n) for q in seqs)
    full = awgs[0]
    if outside:
        for r in awgs:
            if not (isinstance(r, lang.Err) and r.cls == "ValueError"):
                out.append(f"a voltage lies outside the channel range but outputForAWGFile gave {lang.short(r, 60)} (expected ValueError)")
        return out[:2]
    if badseq:
        for r in awgs:
            if not (isinstance(r, lang.Err) and r.cls == "SequencingError"):
                out.append(f"a sequencing setting is outside the AWG5014 ranges ({seqs}) but outputForAWGFile gave {lang.short(r, 60)}")
        return out[:2]
    if isinstance(full, lang.Err):
        return [f"outputForAWGFile raised {full.cls} on an in-range sequence with valid sequencing"]
    if list(full["channels"]) != list(chans):
        out.append(f"package channels {full['channels']} != Sequence.channels {chans}")
    wf, m1, m2, nreps, tw, gt, jp = full["item"]
    if len(wf) != len(chans):
        out.append(f"pkg[:] holds {len(wf)} channels, the sequence has {len(chans)}")
        return out
    for i, c in enumerate(chans):
        a, o = case["ampl"][str(c)], case["off"][str(c)]
        for p in range(n):
            d = forged[p + 1]["content"][1]["data"][c]
            want = (np.asarray(d["wfm"]) - o) / (a / 2)
            got = np.asarray(wf[i][p])
            if got.shape != want.shape or not np.allclose(got, want, rtol=1e-9, atol=1e-12):
                out.append(f"channel {c!r} position {p + 1}: delivered samples are not (v - {o})/({a}/2)")
            elif got.size and (got.max() > 1 + 1e-12 or got.min() < -1 - 1e-12):
                out.append(f"channel {c!r} position {p + 1}: delivered sample outside [-1, 1]")
            if not np.array_equal(m1[i][p], d["m1"]) or not np.array_equal(m2[i][p], d["m2"]):
                out.append(f"channel {c!r} position {p + 1}: marker arrays modified")
    want_seq = ([q["nrep"] for q in seqs], [q["twait"] for q in seqs], [q["goto"] for q in seqs], [q["jump_target"] for q in seqs])
    if (list(nreps), list(tw), list(gt), list(jp)) != want_seq:
        out.append(f"sequencing lists {(nreps, tw, gt, jp)} != settings in position order {want_seq}")
    one, sl = awgs[1], awgs[2]
    i = case["index"]
    if i < len(chans):
        if isinstance(one, lang.Err) or isinstance(sl, lang.Err):
            out.append(f"pkg[{i}] / pkg[{i}:{i + 1}] raised: {one} {sl}")
        else:
            if lang.compare_plain(one["item"], sl["item"]):
                out.append(f"pkg[{i}] != pkg[{i}:{i + 1}]")
            if lang.compare_plain(one["item"][0], [wf[i]]) or lang.compare_plain(list(one["item"][3:]), [nreps, tw, gt, jp]):
                out.append(f"pkg[{i}] does not select channel {i} with the sequencing lists intact")
    return out[:4]


def nontrivial_key(case, impl):
    if case["nch"] + case["npos"] < 3:
        return None
    if not (any(v != 0 for v in case["off"].values()) or any(m != "in" for m in case["modes"].values())):
        return None
    return (tuple(sorted(case["ampl"].items())), tuple(sorted(case["off"].items())), tuple(sorted(case["modes"].items())),
            tuple(tuple(o[2:]) for o in case["prog"] if o[0] == "SSetSequencing"), case["index"])
