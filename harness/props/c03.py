"""C03 - markers are 0/1 and ON exactly on the union of their specified windows."""
from fractions import Fraction

import numpy as np

from .bpgen import insertion_history, target_blueprint
from .common import rnd_args

ID = "C03"
ALLOWED_AXIOMS = []
RULE = ("blueprints as in C01 (waits included) with 0-4 absolute markers per marker channel and random segment-bound "
        "markers (negative delays, overlapping windows, windows running past the end, zero-length, removed), all "
        "times kept >= 0.1 sample away from rounding ties; followed by a history of insert / remove / changeDuration "
        "edits around the marked segments with a re-forge after each edit. Non-trivial: at least one segment-bound "
        "and one absolute marker with non-zero length and at least one edit; distinct by (function sequence, marker "
        "windows).")
TRUST = ["C03 statement oracle: recomputes both marker arrays from the implementation's own description and "
         "per-segment sample counts with exact rationals (nearest index, round(len*SR), union, clipping)"]


def sample_time(rng, SR, lo, hi):
    """A time t with t*SR = k + g, |g| <= 0.4, lo <= k <= hi."""
    k = rng.randint(lo, hi)
    g = rng.choice([0, rng.uniform(-0.4, 0.4)])
    t = (k + g) / SR
    if abs(Fraction(t) * Fraction(SR) - k) > Fraction(2, 5):
        t = float(Fraction(k) / Fraction(SR))
    return t


def generate(rng, tier):
    n = 140 if tier == "quick" else 4000
    n_long = 3 if tier == "quick" else 25
    for _ci in range(n + n_long):
        if _ci >= n:
            # long waveforms (> 2**16 samples): fast paths / caches keyed on size must not change where markers switch
            while True:
                SR, segs = target_blueprint(rng, nseg=rng.randint(3, 5), nmax=40000, SR=rng.choice([1e9, 2.4e9, 1e4]))
                if sum(s[4] for s in segs) > 70000:
                    break
        else:
            SR, segs = target_blueprint(rng, nseg=rng.randint(1, 6), nmax=40)
        N = sum(s[4] for s in segs)
        prog = [("BNew", 0)] + insertion_history(rng, 0, segs) + [("BSetSR", 0, SR)]
        names = None
        for mid in (1, 2):
            k = rng.randint(0, 4)
            if k:
                ms = [(sample_time(rng, SR, 0, N - 1), sample_time(rng, SR, 0, rng.choice([3, 10, N]))) for _ in range(k)]
                prog.append(("BSetMarker", 0, mid, ms))
        prog.append(("OBDescr", 0))
        # segment-bound markers: names are read off the generator's own naming mirror
        from .common import uniquify
        names = uniquify([(nm if nm else f) for f, _a, _d, nm, _n in segs])
        starts = np.cumsum([0] + [s[4] for s in segs])
        for i, nmx in enumerate(names):
            if rng.random() < 0.55:
                lo = -min(int(starts[i]), 5)
                delay = sample_time(rng, SR, lo, max(lo, min(8, N - 1 - int(starts[i]))))
                ln = rng.choice([0, sample_time(rng, SR, 1, 12), sample_time(rng, SR, 1, N)])
                prog.append(("BSetSegMarker", 0, nmx, (delay, ln), rng.choice([1, 2])))
        if rng.random() < 0.3 and names:
            prog.append(("BRemoveSegMarker", 0, rng.choice(names), rng.choice([1, 2])))
        prog += [("OBDescr", 0), ("OBForge", 0)]
        # edit history around the marked segments
        nedits = rng.randint(0, 4)
        for _ in range(nedits):
            k = rng.random()
            if k < 0.4:
                f = rng.choice(["ramp", "ua", "sine"])
                d = rng.randint(2, 20) / SR
                prog.append(("BInsert", 0, rng.choice([0, 1, -1]), f, rnd_args(rng, f, d), d, rng.choice([None, "ins"])))
            elif k < 0.6 and len(names) > 1:
                victim = rng.choice(names)
                prog.append(("BRemove", 0, victim))
                names = None
            elif names:
                t = rng.choice(names)
                prog.append(("BChangeDur", 0, t, rng.randint(2, 30) / SR, False))
            prog += [("OBDescr", 0), ("OBForge", 0)]
            if names is None:
                break
        yield {"prog": prog, "kind": "markers", "SR": SR, "nedits": nedits}


def expected_marker(desc_abs, desc_rel, ns, SR, N):
    SRq = Fraction(SR)
    starts = [0]
    for n in ns:
        starts.append(starts[-1] + n)
    specs = [(Fraction(t), Fraction(l)) for t, l in desc_abs]
    for i, (dl, ln) in enumerate(desc_rel):
        if Fraction(ln) != 0:
            specs.append((Fraction(starts[i]) / SRq + Fraction(dl), Fraction(ln)))
    m = np.zeros(N)
    amb = False
    for t, ln in specs:
        x = t * SRq
        if abs(x - round(x)) > Fraction(45, 100) or abs(ln * SRq - round(ln * SRq)) > Fraction(45, 100):
            amb = True          # near a rounding tie: outside the quantifier
        ind = min(max(round(x), 0), N - 1)
        c = round(ln * SRq)
        if c > 0:
            m[ind:ind + c] = 1
    return m, amb


def oracle(case, impl):
    from harness import lang
    out = []
    SR = case["SR"]
    desc = None
    first_wfm = None
    from . import c05
    pending = None
    for i, (op, r) in enumerate(zip(case["prog"], impl)):
        if op[0] in ("BInsert", "BRemove") and desc is not None:
            pending = (i, op, r)            # an edit after the markers were bound: they must stay attached
        if op[0] == "OBDescr" and isinstance(r, dict):
            if pending is not None and desc is not None:
                out += c05.frame_check(pending[0], pending[1], pending[2], desc, r)
                pending = None
            desc = r
        if op[0] == "OBForge":
            if isinstance(r, lang.Err) or desc is None:
                continue
            N = len(r["wfm"])
            ns = [int(round(float(d) * SR)) for d in r["newdurations"]]
            for key, ab, rel in (("m1", "marker1_abs", "marker1_rel"), ("m2", "marker2_abs", "marker2_rel")):
                arr = np.asarray(r[key])
                if not set(np.unique(arr)).issubset({0.0, 1.0}):
                    out.append(f"{key} holds values other than 0 and 1")
                want, amb = expected_marker(desc[ab], desc[rel], ns, SR, N)
                if not amb and (len(arr) != N or not np.array_equal(arr, want)):
                    out.append(f"{key} is not ON exactly on the union of its windows: got {lang.rle_of(arr)[:8]} want {lang.rle_of(want)[:8]}")
            if first_wfm is None:
                first_wfm = (desc, r)
    return out[:4]


def nontrivial_key(case, impl):
    prog = case["prog"]
    seg = [o for o in prog if o[0] == "BSetSegMarker" and o[3][1] != 0]
    ab = [o for o in prog if o[0] == "BSetMarker"]
    if seg and ab and case["nedits"] > 0:
        return (tuple(o[3] for o in prog if o[0] == "BInsert"), tuple(tuple(o[3]) for o in seg), case["SR"])
    return None
