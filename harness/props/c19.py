"""C19 - description / JSON round trip loses nothing that affects output."""
import json

import numpy as np

from .common import BASES, rnd_args
from .elgen import Regs
from .seqgen import delay_value

ID = "C19"
ALLOWED_AXIOMS = []
PROPS_FILES = ["C19", "C19b", "C19c"]     # C19b: element / channel-id / flags round trips; C19c: sequence round trip
RULE = ("blueprints (1-12 segments over ramp, sine, gaussian, gaussian_smooth_cutoff and waituntil, names from "
        "overlapping bases with interior digits, absolute and segment-bound markers on both marker channels), elements "
        "(1-3 integer channels, flags) and sequences (1-3 positions, amplitude/offset on every channel, optional delays "
        "and filter compensations, sequencing values incl. -1/0/boundaries) are written with write_to_json and read "
        "back with init_from_json; description, ==, and (blueprints after setSR, sequences directly) the forged arrays "
        "of original and read-back object are compared. Non-trivial: >= 2 segments with a digit-carrying or repeated "
        "name or a marker; distinct by (object kind, names, functions, markers, settings).")
TRUST = ["C19 statement oracle: JSON-normalised descriptions equal, read-back == original, forged arrays identical; "
         "json.dumps(description) must succeed (done by the implementation runner on every description)"]

BUILTIN = ["ramp", "sine", "gaussian", "gaussian_smooth_cutoff"]


def rand_bp(rng, regs, SR, nseg=None, total=None):
    """Aligned blueprint over built-in shapes; returns (reg, ops, N)."""
    r = regs.B()
    ops = [("BNew", r)]
    nseg = nseg or rng.randint(1, 5)
    sizes = [rng.randint(2, 12) for _ in range(nseg)]
    if total is not None:
        nseg = max(1, min(nseg, total // 2))
        sizes = [2] * nseg
        for _ in range(total - 2 * nseg):
            sizes[rng.randrange(nseg)] += 1
    elapsed = 0
    names = []
    for i, n in enumerate(sizes):
        if i >= 1 and rng.random() < 0.2:
            ops.append(("BInsert", r, -1, "waituntil", [(elapsed + n) / SR], None, rng.choice([None, None, "wait", "w2x"])))
            names.append(ops[-1][6] or "waituntil")
        else:
            f = rng.choice(BUILTIN)
            d = n / SR
            nm = rng.choice([None, None] + BASES)
            ops.append(("BInsert", r, -1, f, rnd_args(rng, f, d), d, nm))
            names.append(nm or f)
        elapsed += n
    from .common import uniquify
    names = uniquify(names)
    N = sum(sizes)
    for mid in (1, 2):
        if rng.random() < 0.5:
            ops.append(("BSetMarker", r, mid, [(rng.randint(0, N - 2) / SR, rng.randint(1, 5) / SR) for _ in range(rng.randint(1, 2))]))
    for nm in names:
        if rng.random() < 0.4:
            ops.append(("BSetSegMarker", r, nm, (rng.choice([0, 1 / SR]), rng.choice([1 / SR, 2 / SR])), rng.choice([1, 2])))
    return r, ops, N


def generate(rng, tier):
    n = 130 if tier == "quick" else 3500
    for _ci in range(n):
        k = rng.random()
        yield gen_bp(rng) if k < 0.4 else (gen_el(rng) if k < 0.6 else gen_seq(rng))


def gen_bp(rng):
    regs = Regs()
    SR = rng.choice([100, 1000.0, 1e4, 2.4e9])
    r, ops, N = rand_bp(rng, regs, SR, nseg=(rng.randint(95, 125) if rng.random() < 0.08 else rng.randint(1, 12)))
    r2 = regs.B()
    prog = ops + [("BFromJson", r, r2), ("OBDescr", r), ("OBDescr", r2), ("OBEq", r, r2), ("OBEq", r2, r),
                  ("BSetSR", r, SR), ("BSetSR", r2, SR), ("OBForge", r), ("OBForge", r2), ("OBLen", r2)]
    return {"prog": prog, "kind": "blueprint", "regs": [r, r2]}


def gen_el(rng):
    regs = Regs()
    SR = rng.choice([100, 1000.0, 1e4])
    e, e2 = regs.E(), regs.E()
    prog = [("ENew", e)]
    N = rng.randint(6, 30)
    for c in rng.sample([1, 2, 3, 4, 7], rng.randint(1, 3)):
        r, ops, _ = rand_bp(rng, regs, SR, total=N)
        prog += ops + [("BSetSR", r, SR), ("EAddBp", e, c, r)]
        if rng.random() < 0.5:
            prog.append(("EAddFlags", e, c, [rng.choice([0, 1, 2, 3, 4, "H", "L", "T", "P", ""]) for _ in range(4)]))
    prog += [("EFromJson", e, e2), ("OEDescr", e), ("OEDescr", e2), ("OEEq", e, e2), ("OEEq", e2, e), ("OEChannels", e2)]
    return {"prog": prog, "kind": "element", "regs": [e, e2]}


def gen_seq(rng):
    regs = Regs()
    SR = rng.choice([100, 1000.0, 1e4])
    s, s2 = regs.S(), regs.S()
    N = rng.randint(6, 30)
    chans = rng.sample([1, 2, 3, 4, 7], rng.randint(1, 3))
    npos = rng.randint(1, 3)
    prog = [("SNew", s), ("SSetSR", s, SR)]
    for pos in range(1, npos + 1):
        e = regs.E()
        prog.append(("ENew", e))
        ch = list(chans)
        rng.shuffle(ch)
        for c in ch:
            r, ops, _ = rand_bp(rng, regs, SR, total=N)
            prog += ops + [("BSetSR", r, SR), ("EAddBp", e, c, r)]
            if rng.random() < 0.4:
                prog.append(("EAddFlags", e, c, [rng.choice([0, 1, 2, 3, 4, "H", "L", "T", "P", ""]) for _ in range(4)]))
        prog.append(("SAddElement", s, pos, e))
        for fld in ("twait", "nrep", "jump_input", "jump_target", "goto"):
            if rng.random() < 0.5:
                prog.append(("SSetSequencing", s, pos, fld, rng.choice([-1, 0, 1, 2, 3, npos, 16383, 65536])))
    dl = {}
    for c in chans:
        prog += [("SSetAmp", s, c, rng.choice([1, 2, 0.5, 3.3])), ("SSetOff", s, c, rng.choice([0, 0.1, -0.25]))]
        if rng.random() < 0.5:
            dl[c] = delay_value(rng, SR)
            prog.append(("SSetDelay", s, c, dl[c]))
        if rng.random() < 0.5:
            prog.append(rng.choice([("SSetFilter", s, c, "HP", rng.choice([1, 2, -1]), SR * 0.1, None),
                                    ("SSetFilter", s, c, "LP", 1, None, 1 / (SR * 0.3))]))
    ds = sorted({round(v * SR) for v in dl.values()} | {0})
    forge_ok = not any(b - a == 1 for a, b in zip(ds, ds[1:]))
    prog += [("SFromJson", s, s2), ("OSDescr", s), ("OSDescr", s2), ("OSEq", s, s2), ("OSEq", s2, s)]
    if forge_ok:
        prog += [("OSForge", s, True, True, False), ("OSForge", s2, True, True, False)]
    if rng.random() < 0.35:
        # the same content read a second time after the first read-back was edited: every read is a fresh object
        s3 = regs.S()
        prog += [("SSetSequencing", s2, 1, "nrep", 9), ("SSetAmp", s2, chans[0], 7), ("SFromJson", s, s3),
                 ("OSDescr", s3), ("OSEq", s, s3), ("OSEq", s3, s)]
    return {"prog": prog, "kind": "sequence", "regs": [s, s2]}


def oracle(case, impl):
    from harness import lang
    out = []
    prog = case["prog"]
    R = {}
    for op, r in zip(prog, impl):
        R.setdefault(op[0], []).append(r)
    kind = case["kind"]
    key = {"blueprint": "B", "element": "E", "sequence": "S"}[kind]
    rt = R[key + "FromJson"][0]
    if isinstance(rt, lang.Err):
        return [f"write_to_json / init_from_json raised {rt.cls}"]
    d0, d1 = R[f"O{key}Descr"][0], R[f"O{key}Descr"][1]
    if isinstance(d0, lang.Err) or isinstance(d1, lang.Err):
        return [f"description raised: {d0} {d1}"]
    for extra in R[f"O{key}Descr"][2:]:
        if not isinstance(extra, lang.Err) and json.loads(json.dumps(extra)) != json.loads(json.dumps(d0)):
            out.append("a second read of the same file (after the first read-back was edited) does not have the original's description")
    n0, n1 = json.loads(json.dumps(d0)), json.loads(json.dumps(d1))
    if n0 != n1:
        diff = first_diff(n0, n1)
        out.append(f"read-back description differs from the original at {diff}")
    for e in R[f"O{key}Eq"]:
        if e is not True:
            out.append(f"read-back object does not compare equal to the original (== gave {e})")
    if kind == "blueprint":
        nseg = sum(1 for k in d0 if k.startswith("segment_"))
        if R["OBLen"][0] != nseg:
            out.append("read-back blueprint has a different number of segments")
    fk = {"blueprint": "OBForge", "sequence": "OSForge"}.get(kind)
    if fk and fk in R:
        f0, f1 = R[fk]
        if isinstance(f0, lang.Err) != isinstance(f1, lang.Err):
            out.append(f"only one of original/read-back forges: {lang.short(f0, 40)} / {lang.short(f1, 40)}")
        elif not isinstance(f0, lang.Err):
            if kind == "blueprint":
                f0, f1 = {k: v for k, v in f0.items() if k != "calls"}, {k: v for k, v in f1.items() if k != "calls"}
            if lang.compare_plain_dict(f0, f1):
                out.append("read-back object forges to different arrays")
    return out[:4]


def first_diff(a, b, path="$"):
    if isinstance(a, dict) and isinstance(b, dict):
        for k in sorted(set(a) | set(b)):
            if k not in a or k not in b:
                return f"{path}.{k} (missing on one side)"
            d = first_diff(a[k], b[k], f"{path}.{k}")
            if d:
                return d
        return None
    if isinstance(a, list) and isinstance(b, list):
        if len(a) != len(b):
            return f"{path} (length {len(a)} vs {len(b)})"
        for i, (x, y) in enumerate(zip(a, b)):
            d = first_diff(x, y, f"{path}[{i}]")
            if d:
                return d
        return None
    return None if a == b else f"{path}: {a!r} vs {b!r}"


def nontrivial_key(case, impl):
    prog = case["prog"]
    ins = [o for o in prog if o[0] == "BInsert"]
    names = [o[6] for o in ins]
    interesting = (any(n and any(ch.isdigit() for ch in n) for n in names) or len(set(names)) < len(names)
                   or any(o[0] in ("BSetMarker", "BSetSegMarker") for o in prog))
    if len(ins) < 2 or not interesting:
        return None
    return (case["kind"], tuple((o[3], o[6]) for o in ins), tuple(tuple(map(str, o[2:])) for o in prog if o[0] in
            ("BSetMarker", "BSetSegMarker", "SSetDelay", "SSetFilter", "SSetSequencing", "EAddFlags")))
