"""Shared generator helpers."""
import re

BASES = ["a", "a1b", "x2y", "ramp", "w", "pi2pulse", "seg_", "b"]
FUNCS = {"ramp": 2, "sine": 4, "gaussian": 4, "gaussian_smooth_cutoff": 4, "ua": 1, "ub2": 2, "uc": 4}
PARAMS = {
    "ramp": ["start", "stop"], "sine": ["freq", "ampl", "off", "phase"],
    "gaussian": ["ampl", "sigma", "mu", "offset"], "gaussian_smooth_cutoff": ["ampl", "sigma", "mu", "offset"],
    "ua": ["x"], "ub2": ["a", "b"], "uc": ["p", "q", "r", "s"],
}
SRS = [1, 1.7, 100, 1e4, 2.4e9, 50e9, 25, 1000.0, 12.5]


def basename(s):
    return re.sub(r"\d+$", "", s)


def uniquify(names):
    out, seen = [], {}
    for n in names:
        b = basename(n)
        seen[b] = seen.get(b, 0) + 1
        out.append(b if seen[b] == 1 else f"{b}{seen[b]}")
    return out


def rnd_args(rng, f, dur=None):
    """Physically sensible arguments for a pulse function (time-like ones scaled to the duration)."""
    if dur is not None and f == "sine":
        return [rng.choice([1, 2, rng.uniform(0, 4)]) / dur, rng.uniform(0.1, 5), rng.choice([0, rng.uniform(-2, 2)]),
                rng.choice([0, rng.uniform(-3, 3)])]
    if dur is not None and f in ("gaussian", "gaussian_smooth_cutoff"):
        return [rng.uniform(0.1, 5), dur * rng.uniform(0.05, 0.3), rng.choice([0, dur * rng.uniform(-0.2, 0.2)]),
                rng.choice([0, rng.uniform(-1, 1)])]
    if f == "ramp":
        return [rng.choice([0, 1, -1, 0.5, rng.uniform(-10, 10)]), rng.choice([0, 1, rng.uniform(-10, 10)])]
    if f == "sine":
        return [rng.choice([1, 10, rng.uniform(0, 40)]), rng.uniform(0.1, 5), rng.choice([0, rng.uniform(-2, 2)]),
                rng.choice([0, rng.uniform(-3, 3)])]
    if f in ("gaussian", "gaussian_smooth_cutoff"):
        return [rng.uniform(0.1, 5), rng.uniform(0.01, 0.5), rng.choice([0, rng.uniform(-0.1, 0.1)]),
                rng.choice([0, rng.uniform(-1, 1)])]
    if f == "ua":
        return [rng.choice([1, 0.25, rng.uniform(-3, 3)])]
    if f == "ub2":
        return [rng.uniform(-2, 2), rng.choice([0.5, 1, rng.uniform(-1, 1)])]
    if f == "uc":
        return [rng.uniform(-1, 1), rng.choice([0, 1]), rng.uniform(-1, 1), rng.choice([0, 0.125])]
    raise KeyError(f)


def off_grid_dur(rng, SR, nmin=2, nmax=60):
    """(n + f)/SR with |f| <= 0.4: never near a rounding tie; returns (duration, n)."""
    n = rng.randint(nmin, nmax)
    f = rng.choice([0, 0, rng.uniform(-0.4, 0.4)])
    d = (n + f) / SR
    # keep the binary64 product away from the tie as well
    if abs(d * SR - n) > 0.41:
        d = n / SR
    if rng.random() < 0.3 and float(d).is_integer():
        d = int(d)
    return d, n


def grid_dur(rng, SR, nmin=2, nmax=60):
    n = rng.randint(nmin, nmax)
    return n / SR, n
