"""C18 - forged structure is schema-valid; subsequences forge like stand-alone sequences."""
import numpy as np

from .elgen import CHAN_POOL, Regs, safe_element
from .seqgen import delay_value, marked_bp
from .elgen import const_rle, marker_rle

ID = "C18"
ALLOWED_AXIOMS = []
RULE = ("consistent sequences of 1-4 positions mixing elements and non-nested subsequences (1-3 positions each, with "
        "their own sequencing) at any positions, 1-3 channels with int and str ids, blueprint (flags on some) and "
        "raw-array channels, whole-sample delays, filter compensations, sequencing values; forge() under all eight "
        "option combinations, each subsequence also forged stand-alone under the parent's settings; nested "
        "subsequences and subsequences with another sample rate are offered and must be refused; points and duration. "
        "Non-trivial: at least one subsequence and one element; distinct by (entry kinds, channel kinds, settings).")
TRUST = ["C18 statement oracle: broadbean.sequence.fs_schema.validate on the real forge() output; structural checks "
         "of keys per option; subsequence content compared with the stand-alone forge; points/duration recomputed "
         "from the parts"]


def generate(rng, tier):
    n = 70 if tier == "quick" else 2000
    for _ci in range(n):
        yield gen_case(rng)


def elem(rng, regs, SR, N, chans, kinds):
    e = regs.E()
    ops = [("ENew", e)]
    ch = list(chans)
    rng.shuffle(ch)
    for c in ch:
        if kinds[c] == "bp":
            r, o, _n, _s = marked_bp(rng, regs, SR, N, ["ramp", "ua", "sine"], waits=True)
            ops += o + [("EAddBp", e, c, r)]
            if rng.random() < 0.4:
                ops.append(("EAddFlags", e, c, [rng.choice([0, 1, 2, 3, 4, "", "H", "L", "T", "P"]) for _ in range(4)]))
        else:
            ops.append(("EAddArray", e, c, const_rle(rng, N, (0.0, 0.25, -0.25)), SR,
                        [("m1", marker_rle(rng, N)), ("m2", marker_rle(rng, N))]))
    return e, ops


def gen_case(rng):
    regs = Regs()
    SR = rng.choice([100, 1000.0, 1e4, 25])
    N = rng.randint(6, 24)
    nch = rng.randint(1, 3)
    chans = rng.sample(CHAN_POOL, nch)
    kinds = {c: rng.choice(["bp", "bp", "arr"]) for c in chans}
    npos = rng.randint(1, 4)
    s = regs.S()
    prog = [("SNew", s), ("SSetSR", s, SR)]
    dl = {c: rng.choice([0, 0, delay_value(rng, SR)]) for c in chans}
    ds = sorted({round(v * SR) for v in dl.values()})
    if any(b - a == 1 for a, b in zip(ds, ds[1:])):
        dl = {c: 0 for c in chans}
    filt = {c: rng.choice([None, None, ("HP", 1, SR * 0.1, None), ("LP", 2, None, 1 / (SR * 0.5))]) for c in chans}

    def settings(reg):
        o = []
        for c in chans:
            if dl[c]:
                o.append(("SSetDelay", reg, c, dl[c]))
            if filt[c]:
                o.append(("SSetFilter", reg, c) + filt[c])
        return o

    subs = {}
    entry = {}
    order = list(range(1, npos + 1))
    rng.shuffle(order)
    for pos in order:
        if rng.random() < 0.45:
            t = regs.S()
            prog += [("SNew", t), ("SSetSR", t, SR)]
            k = rng.randint(1, 3)
            for p2 in range(1, k + 1):
                e, ops = elem(rng, regs, SR, rng.choice([N, N + 2]) if False else N, chans, kinds)
                prog += ops + [("SAddElement", t, p2, e)]
                if rng.random() < 0.6:
                    prog.append(("SSetSequencing", t, p2, rng.choice(["nrep", "goto", "twait", "jump_target"]), rng.choice([0, 1, 2, k])))
            prog.append(("SAddSub", s, pos, t))
            subs[pos] = (t, k)
            entry[pos] = "sub"
        else:
            e, ops = elem(rng, regs, SR, N, chans, kinds)
            prog += ops + [("SAddElement", s, pos, e)]
            entry[pos] = "el"
        if rng.random() < 0.6:
            prog.append(("SSetSequencing", s, pos, rng.choice(["nrep", "goto", "twait", "jump_target", "jump_input"]), rng.choice([0, 1, 2, 3, npos])))
    prog += settings(s)
    for t, _k in subs.values():
        prog += settings(t)
    # refused: nested subsequence, subsequence at another sample rate, a non-sequence is not expressible here
    if subs and rng.random() < 0.5:
        t0 = next(iter(subs.values()))[0]
        outer, wrong = regs.S(), regs.S()
        e, ops = elem(rng, regs, SR, N, chans, kinds)
        prog += [("SNew", outer), ("SSetSR", outer, SR)] + ops + [("SAddElement", outer, 1, e), ("SAddSub", outer, 2, t0),
                                                                  ("SAddSub", s, npos + 1, outer), ("OSLen", s)]
        prog += [("SNew", wrong), ("SSetSR", wrong, rng.choice([SR * 2, SR / 2, SR * (1 + 2e-6), SR * (1 - 1e-9)])), ("SAddSub", s, npos + 1, wrong), ("OSLen", s)]
    for d in (False, True):
        for f in (False, True):
            for t in (False, True):
                prog.append(("OSForge", s, d, f, t))
    for pos, (t, _k) in subs.items():
        prog.append(("OSForge", t, True, True, False))
    prog += [("OSPoints", s), ("OSDuration", s), ("OSDescr", s)]
    return {"prog": prog, "kind": "mixed" if subs and len(subs) < npos else ("subs" if subs else "elements"), "SR": SR,
            "N": N, "entry": {str(k): v for k, v in entry.items()}, "subs": {str(k): list(v) for k, v in subs.items()},
            "npos": npos, "kinds": {str(c): k for c, k in kinds.items()}, "main": s,
            "maxdelay": max(round(v * SR) for v in dl.values())}


def oracle(case, impl):
    from harness import lang
    from broadbean.sequence import fs_schema
    out = []
    prog = case["prog"]
    main = case["main"]
    forges = [(op, r) for op, r in zip(prog, impl) if op[0] == "OSForge" and op[1] == main]
    for op, r in zip(prog, impl):
        if op[0] == "SAddSub" and op[1] == main and op[2] == case["npos"] + 1 and not isinstance(r, lang.Err):
            out.append("a nested subsequence or a subsequence with another sample rate was accepted")
    npos = case["npos"]
    for op, f in forges:
        _, _, d, fl, t = op
        if isinstance(f, lang.Err):
            out.append(f"forge(delays={d}, filters={fl}, time={t}) raised {f.cls} on a consistent sequence")
            continue
        try:
            fs_schema.validate(f)
        except Exception as e:  # noqa: BLE001
            out.append(f"forge output does not validate against fs_schema: {str(e)[:120]}")
        if sorted(f) != list(range(1, npos + 1)):
            out.append(f"forged positions {sorted(f)} != 1..{npos}")
            continue
        for pos in f:
            ent = f[pos]
            kind = case["entry"][str(pos)]
            if ent["type"] != ("subsequence" if kind == "sub" else "element"):
                out.append(f"position {pos} has type {ent['type']!r}")
            if kind == "el" and sorted(ent["content"]) != [1]:
                out.append(f"element position {pos} content keys {sorted(ent['content'])}")
            if kind == "sub" and sorted(ent["content"]) != list(range(1, case["subs"][str(pos)][1] + 1)):
                out.append(f"subsequence position {pos} content keys {sorted(ent['content'])}")
            for p2, c2 in ent["content"].items():
                if kind == "sub" and "sequencing" not in c2:
                    out.append(f"subsequence position {pos}.{p2} lacks its own sequencing")
                for ch, arrs in c2["data"].items():
                    keys = set(arrs)
                    isbp = case["kinds"][str(ch)] == "bp"
                    want_time = {"time"} | ({"newdurations"} if isbp else set())
                    if t and not want_time <= keys:
                        out.append(f"time axis requested but {sorted(want_time - keys)} missing on channel {ch!r}")
                    if not t and (keys & {"time", "newdurations"}):
                        out.append(f"time axis not requested but present on channel {ch!r}")
    # subsequences forge exactly like the stand-alone sequence under the parent's settings
    full = [r for op, r in forges if op[2:] == [True, True, False]]
    if full and not isinstance(full[0], lang.Err):
        for pos, (treg, k) in case["subs"].items():
            alone = [r for op, r in zip(prog, impl) if op[0] == "OSForge" and op[1] == treg]
            if not alone or isinstance(alone[0], lang.Err):
                out.append(f"stand-alone forge of the subsequence raised: {alone}")
                continue
            content = full[0][int(pos)]["content"]
            for p2 in range(1, k + 1):
                a = alone[0][p2]
                if lang.compare_plain_dict(content[p2]["data"], a["content"][1]["data"]):
                    out.append(f"subsequence position {pos}.{p2} differs from the stand-alone forge")
                if content[p2]["sequencing"] != a["sequencing"]:
                    out.append(f"subsequence position {pos}.{p2} sequencing {content[p2]['sequencing']} != its own {a['sequencing']}")
    pts = [r for op, r in zip(prog, impl) if op[0] == "OSPoints"][0]
    dur = [r for op, r in zip(prog, impl) if op[0] == "OSDuration"][0]
    plain = [r for op, r in forges if op[2:] == [False, False, False]]
    if plain and not isinstance(plain[0], lang.Err) and not isinstance(pts, lang.Err):
        N, SR = case["N"], case["SR"]
        want_pts = sum(N * len(plain[0][p]["content"]) for p in plain[0])
        if pts != want_pts:
            out.append(f"Sequence.points = {pts}, the forged content holds {want_pts} samples per channel")
        want_dur = 0.0
        for p in plain[0]:
            ent = plain[0][p]
            if ent["type"] == "element":
                inner = N / SR
            else:
                inner = sum(c2["sequencing"]["nrep"] * N / SR for c2 in ent["content"].values())
            want_dur += ent["sequencing"]["nrep"] * inner
        if isinstance(dur, lang.Err) or abs(dur - want_dur) > 1e-9 * max(1.0, want_dur):
            out.append(f"Sequence.duration = {dur}, expected {want_dur} (weighted by repetitions)")
    return out[:4]


def nontrivial_key(case, impl):
    kinds = set(case["entry"].values())
    if kinds != {"sub", "el"}:
        return None
    return (tuple(sorted(case["entry"].items())), tuple(sorted(case["kinds"].items())), case["SR"], case["N"],
            tuple(tuple(o[2:]) for o in case["prog"] if o[0] in ("SSetDelay", "SSetFilter", "SSetSequencing")))
