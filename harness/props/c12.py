"""C12 - ripasso filters multiply every DFT bin by the stated transfer function (tie T)."""
from .. import numeric

ID = "C12"
T_GEN = ["RipassoGen.v"]
T_FILES = ["Generated/RipassoGen", "Numeric/RipassoFacts", "Numeric/DFT", "Props/C12", "Props/C12d"]
PROPS_FILES = ["C12", "C12d"]
ALLOWED_AXIOMS = ["ClassicalDedekindReals.sig_forall_dec", "ClassicalDedekindReals.sig_not_dec",
                  "FunctionalExtensionality.functional_extensionality_dep"]
RULE = ("tie T: _rcFilter, applyRCFilter, applyInverseRCFilter and applyCustomTransferFunction re-translated from "
        "src/broadbean/ripasso.py on this run, theorems of coq/Numeric/RipassoFacts.v re-checked against the generated "
        "text (fft/ifft/interp universally quantified, the DFT facts explicit premises); numeric oracle on the N unit "
        "impulses (which by linearity determine every signal of that length) for N = 2..33 (thorough: 2..257 and "
        "random lengths to 2048), odd and even, both kinds, orders 1..3, cut-offs 1e-4*SR..3*SR, DC gains > 0, several "
        "sample rates, filter and inverse; custom transfer functions on random strictly increasing axes covering "
        "[0, SR/2], invert on/off, rejected axes; linearity on random signals. Non-trivial: N >= 3; distinct by "
        "(N, SR, kind, f_cut, order, DC gain).")
TRUST = ["translator/py2coq.py and coq/Numeric/NumpyPrims.v (fftfreq bin layout for odd and even N, slices, "
         "concatenate, [::-1]) validated against numpy on this run",
         "numpy.fft.fft/ifft are modelled as arbitrary functions satisfying the stated premises (inverse pair, "
         "Hermitian spectrum of real signals, spectrum of the real part); checked numerically, not proved",
         "floating-point error (tolerance 1e-9 scaled by max|H^order|) is measured, not proved",
         "standard-library axioms of the real numbers as reported by Print Assumptions"]


def generate(rng, tier):
    return []


def configs(rng, tier):
    lengths = list(range(2, 34)) if tier == "quick" else list(range(2, 258)) + [rng.randint(258, 2048) for _ in range(6)]
    for N in lengths:
        reps = 2 if tier == "quick" else 3
        for _ in range(reps):
            SR = rng.choice([1.0, 100.0, 1e4, 2.4e9])
            yield (N, SR, rng.choice(["HP", "LP"]), SR * rng.choice([1e-4, 1e-3, 0.01, 0.1, 0.5, 1, 3]), rng.choice([1, 2, 3]),
                   rng.choice([1, 0.5, 2.5, 1e-3]), rng.random() < 0.5)


def run(ctx, seed_off, tier, limit=3):
    import random
    rng = random.Random(ctx["seed"] + seed_off)
    found, keys, n = [], set(), 0
    for N, SR, kind, fc, order, g, inv in configs(rng, tier):
        if tier != "quick" and N > 64 and rng.random() < 0.8:
            continue
        n += N
        if N >= 3:
            keys.add((N, SR, kind, fc, order, g, inv))
        try:
            f = numeric.c12_oracle(N, SR, kind, fc, order, g, inverse=inv)
            if not f and rng.random() < 0.5:
                f = numeric.c12_custom_oracle(N, SR, rng)
                n += 2 * N
            if not f and rng.random() < 0.2:
                f = numeric.c12_linearity(N, SR, rng)
        except Exception as e:  # noqa: BLE001 - the implementation raised on a valid call
            f = [f"ripasso raised {type(e).__name__} on a valid call (N={N}, SR={SR}): {str(e)[:120]}"]
        if f:
            found.append((f[0], {"numeric_case": {"N": N, "SR": SR, "kind": kind, "f_cut": fc, "order": order, "DCgain": g,
                                                  "inverse": inv}, "oracle_failures": f}))
            if len(found) >= limit:
                break
    return found, n, keys


def extra_checks(ctx):
    import random
    nprim, pf = numeric.validate_prims(random.Random(ctx["seed"] + 2))
    for f in pf[:3]:
        ctx["report"](f"numpy primitive differs from coq/Numeric/NumpyPrims.v: {f}", {"primitive": f}, False)
    found, n, keys = run(ctx, 12, ctx["tier"])
    for sig, payload in found:
        ctx["report"](sig, payload, True)
    return {"evaluations": n + nprim, "distinct_nontrivial": len(keys),
            "samples": [{"impulse_basis": "all N unit impulses", "config": list(sorted(keys))[0] if keys else None}],
            "numpy_primitive_checks": nprim}


def search_failing_input(ctx):
    found, _n, _k = run(ctx, 13, "quick")
    return found


def replay(case):
    """Re-run the numeric statement oracle on the input stored in a replay file."""
    import random
    return (numeric.c12_oracle(case['N'], case['SR'], case['kind'], case['f_cut'], case['order'], case['DCgain'], inverse=case['inverse'])
            or numeric.c12_custom_oracle(case['N'], case['SR'], random.Random(0)) or numeric.c12_linearity(case['N'], case['SR'], random.Random(0)))
