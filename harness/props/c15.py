"""C15 - SEQX package mirrors the forged sequence and enforces AWG70000A limits."""
from fractions import Fraction

import numpy as np

from .elgen import CHAN_POOL, Regs, marker_rle

ID = "C15"
ALLOWED_AXIOMS = ["ClassicalDedekindReals.sig_forall_dec", "ClassicalDedekindReals.sig_not_dec",
                  "FunctionalExtensionality.functional_extensionality_dep"]      # the real-number part (Props/C14n.v) only
PROPS_FILES = ["C15", "C14n", "C15b"]
T_GEN = ["OutputGuardsGen.v"]
T_FILES = ["Generated/OutputGuardsGen", "Numeric/Rescale", "Numeric/GuardConstants", "Props/C14n"]


def search_failing_input(ctx):
    return []          # the generated cases below are the search: their oracle failures are reported with the input

RULE = ("consistent sequences of 1-3 positions and 1-3 channels whose waveforms have 2400..2600 points (and some with "
        "2399), blueprints of constant/ramp segments and raw arrays, dyadic amplitudes, peaks inside / exactly at / just "
        "outside +-amplitude/2, sequencing values around every AWG70000A boundary (wait and event input -1..4, "
        "repetitions -1,0,16383,16384, jump -2..N+1, goto -1..N+1), flags as ints and letter aliases on all, some or "
        "no channels and positions, a sequence name; both outputForSEQXFile and outputForSEQXFileWithFlags. "
        "Non-trivial: >= 2 channels or positions with flags or a boundary case; distinct by (lengths, amplitudes, peak "
        "placement, sequencing, flags).")
TRUST = ["C15 statement oracle: wfms[i][p-1] == [wfm, m1, m2] of forge() for Sequence.channels[i]; amplitudes in "
         "channel order (+ one 0 for a single channel); five sequencing lists in position order; seqname; the stated "
         "error conditions; flags as integers, [0,0,0,0] where unset"]

ALIAS = {"": 0, "H": 1, "L": 2, "T": 3, "P": 4}


def generate(rng, tier):
    n = 70 if tier == "quick" else 2000
    for _ci in range(n):
        yield gen_case(rng)
    # every instrument limit, at the limit and one beyond, once per run (deterministic sweep: a changed limit in the
    # source is then always met by a concrete input, not only when the random stream happens to draw it)
    for fld, vals in (("twait", [3, 4, -1]), ("nrep", [16383, 16384, -1]), ("jump_input", [3, 4, -1]),
                      ("jump_target", ["N", "N+1", -1, -2]), ("goto", ["N", "N+1", 0, -1])):
        for v in vals:
            yield gen_case(rng, force=(fld, v))


def gen_case(rng, force=None):
    regs = Regs()
    SR = rng.choice([1e9, 2.4e9, 25e9, 1000.0, 4e12, 1e13])
    # outcome classes (measured, see DESIGN 9.7): package produced / one voltage outside / a sequencing value at or
    # beyond an instrument limit (voltages inside, so that the sequencing guard is reached) / fewer than 2400 points
    klass = rng.choice(["inside"] * 9 + ["voltage"] * 4 + ["sequencing"] * 5 + ["short"] * 2)
    if force:
        klass = "sequencing"
    short = klass == "short"
    N = 2399 if short else rng.choice([2400, 2400, 2401, 2500, 2600])
    nch = rng.randint(1, 3)
    npos = rng.randint(1, 3)
    chans = rng.sample([1, 2, 3, 4, "A", "chB"], nch)
    ampl = {c: rng.choice([1, 2, 4, 0.5]) for c in chans}
    kinds = {c: rng.choice(["bp", "bp", "arr"]) for c in chans}
    s = regs.S()
    prog = [("SNew", s), ("SSetSR", s, SR)]
    modes, flags = {}, {}
    any_out = klass != "voltage"          # True: no (further) voltage leaves its range
    order = list(range(1, npos + 1))
    rng.shuffle(order)                      # positions are filled in arbitrary order
    for pos in order:
        e = regs.E()
        prog.append(("ENew", e))
        ch = list(chans)
        rng.shuffle(ch)
        for c in ch:
            lo, hi = -ampl[c] / 2, ampl[c] / 2
            mode = rng.choice(["in", "in", "in", "at_hi", "at_lo", "above", "below", "ulp_above", "ulp_below"])
            if mode in ("above", "below", "ulp_above", "ulp_below"):
                if any_out:
                    mode = "in"
                else:
                    any_out = True
            modes[f"{pos}:{c}"] = mode
            eps = ampl[c] / 1024
            peak = {"in": ampl[c] / 8, "at_hi": hi, "at_lo": lo, "above": hi + eps, "below": lo - eps,
                    "ulp_above": float(np.nextafter(hi, np.inf)) if hi != 0 else 5e-324,
                    "ulp_below": float(np.nextafter(lo, -np.inf)) if lo != 0 else -5e-324}[mode]
            inner = [0, ampl[c] / 4, -ampl[c] / 4]
            if kinds[c] == "bp":
                r = regs.B()
                prog.append(("BNew", r))
                cut = rng.randint(2, N - 4)
                sizes = [cut, N - cut]
                k_peak = rng.randrange(2)
                for k, n in enumerate(sizes):
                    d = n / SR
                    if k == k_peak:
                        prog.append(("BInsert", r, -1, rng.choice(["ua", "ramp"]), None, d, None))
                        f = prog[-1][3]
                        prog[-1] = ("BInsert", r, -1, f, [peak] if f == "ua" else [peak, rng.choice(inner)], d, None)
                    else:
                        prog.append(("BInsert", r, -1, "ramp", [rng.choice(inner), rng.choice(inner)], d, None))
                prog.append(("BSetSR", r, SR))
                if rng.random() < 0.6:
                    prog.append(("BSetMarker", r, rng.choice([1, 2]), [(rng.randint(0, N - 30) / SR, rng.randint(1, 20) / SR)]))
                prog.append(("EAddBp", e, c, r))
                if rng.random() < 0.5:
                    fl = [rng.choice([0, 1, 2, 3, 4, "", "H", "L", "T", "P"]) for _ in range(4)]
                    prog.append(("EAddFlags", e, c, fl))
                    flags[f"{pos}:{c}"] = [ALIAS.get(x, x) for x in fl]
                if rng.random() < 0.05:
                    prog.append(("EAddFlags", e, c, rng.choice([[0, 1, 2], [0, 1, 2, 5], [0, "X", 1, 1]])))   # rejected
            else:
                n1 = rng.randint(1, N - 2)
                n2 = rng.randint(1, N - n1 - 1)
                w = [(rng.choice(inner), n1), (peak, n2), (rng.choice(inner), N - n1 - n2)]
                prog.append(("EAddArray", e, c, w, SR, [("m1", marker_rle(rng, N)), ("m2", marker_rle(rng, N))]))
        prog.append(("SAddElement", s, pos, e))
    for c in chans:
        prog.append(("SSetAmp", s, c, ampl[c]))
    if klass in ("inside", "sequencing") and rng.random() < 0.4:
        for c in chans:          # channel delays of whole samples (never one sample apart: C10's known finding)
            prog.append(("SSetDelay", s, c, float(Fraction(rng.choice([0, 2, 4, 40])) / Fraction(SR))))
    for pos in range(1, npos + 1):
        if rng.random() < 0.6:
            fld = rng.choice(["twait", "nrep", "jump_target", "goto", "jump_input"])
            val = {"twait": rng.choice([0, 1, 2, 3, 3, 4, -1]), "nrep": rng.choice([0, 1, 16383, 16383, 16384, -1]),
                   "jump_target": rng.choice([-1, 0, npos, npos, npos + 1, -2]),
                   "goto": rng.choice([0, npos, npos, 1, npos + 1, -1]),
                   "jump_input": rng.choice([0, 1, 3, 3, 4, -1])}[fld]
            if klass != "sequencing":
                val = {"twait": rng.choice([0, 1, 2, 3]), "nrep": rng.choice([0, 1, 2, 16383]),
                       "jump_target": rng.choice([-1, 0, 1, npos]), "goto": rng.choice([0, 1, npos]),
                       "jump_input": rng.choice([0, 1, 2, 3])}[fld]
            prog.append(("SSetSequencing", s, pos, fld, val))
    if force:
        fv = {"N": npos, "N+1": npos + 1}.get(force[1], force[1])
        prog = [o for o in prog if o[0] != "SSetSequencing"] + [("SSetSequencing", s, rng.randint(1, npos), force[0], fv)]
    if rng.random() < 0.6:
        prog.append(("SSetName", s, rng.choice(["myseq", "seq_1", "x"])))
    prog += [("OSChannels", s), ("OSForge", s, True, True, False), ("OSSeqx", s, False), ("OSSeqx", s, True)]
    return {"prog": prog, "kind": klass, "N": N,
            "ampl": {str(k): v for k, v in ampl.items()}, "modes": modes, "flags": flags, "npos": npos, "nch": nch,
            "name": next((o[2] for o in prog if o[0] == "SSetName"), "")}


def seq_ok(q, n):
    return (0 <= q["twait"] <= 3 and 0 <= q["jump_input"] <= 3 and 0 <= q["nrep"] <= 16383
            and -1 <= q["jump_target"] <= n and 0 <= q["goto"] <= n)


def oracle(case, impl):
    from harness import lang
    out = []
    prog = case["prog"]
    forged = [r for op, r in zip(prog, impl) if op[0] == "OSForge"][0]
    chans = [r for op, r in zip(prog, impl) if op[0] == "OSChannels"][0]
    sx, sxf = [r for op, r in zip(prog, impl) if op[0] == "OSSeqx"]
    for op, r in zip(prog, impl):
        if op[0] == "EAddFlags" and (len(op[3]) != 4 or any(x not in (0, 1, 2, 3, 4, "", "H", "L", "T", "P") for x in op[3])):
            if not isinstance(r, lang.Err):
                out.append(f"addFlags accepted {op[3]}")
    if isinstance(forged, lang.Err) or isinstance(chans, lang.Err):
        return out + [f"forge/channels raised on a consistent sequence: {forged} {chans}"]
    n = case["npos"]
    outside = False
    for p in range(1, n + 1):
        for c in chans:
            v = np.asarray(forged[p]["content"][1]["data"][c]["wfm"])
            a = case["ampl"][str(c)]
            if v.max() > a / 2 or v.min() < -a / 2:
                outside = True
    seqs = [forged[p]["sequencing"] for p in range(1, n + 1)]
    must_raise = case["N"] < 2400 or outside or not all(seq_ok(q, n) for q in seqs)
    for nm, r in (("outputForSEQXFile", sx), ("outputForSEQXFileWithFlags", sxf)):
        if must_raise:
            if not isinstance(r, lang.Err):
                out.append(f"{nm} returned a package although N={case['N']}, outside={outside}, sequencing={seqs}")
            continue
        if isinstance(r, lang.Err):
            out.append(f"{nm} raised {r.cls} on a valid sequence")
            continue
        tw, nr, ji, jt, gt, wf, amps, name = r[:8]
        want = ([q["twait"] for q in seqs], [q["nrep"] for q in seqs], [q["jump_input"] for q in seqs],
                [q["jump_target"] for q in seqs], [q["goto"] for q in seqs])
        if (list(tw), list(nr), list(ji), list(jt), list(gt)) != want:
            out.append(f"{nm}: sequencing lists do not mirror the settings in position order")
        wa = [case["ampl"][str(c)] for c in chans] + ([0] if len(chans) == 1 else [])
        if list(amps) != wa:
            out.append(f"{nm}: amplitudes {amps} != {wa}")
        if name != case["name"]:
            out.append(f"{nm}: seqname {name!r} != {case['name']!r}")
        if len(wf) != len(chans):
            out.append(f"{nm}: {len(wf)} channel lists for {len(chans)} channels")
            continue
        for i, c in enumerate(chans):
            for p in range(n):
                d = forged[p + 1]["content"][1]["data"][c]
                arr = np.asarray(wf[i][p])
                if arr.shape != (3, len(d["wfm"])) or not (np.array_equal(arr[0], d["wfm"]) and np.array_equal(arr[1], d["m1"])
                                                            and np.array_equal(arr[2], d["m2"])):
                    out.append(f"{nm}: wfms[{i}][{p}] is not [wfm, m1, m2] of channel {c!r} at position {p + 1}")
        if nm.endswith("Flags"):
            fl = r[8]
            wantf = [[case["flags"].get(f"{p}:{c}", [0, 0, 0, 0]) for p in range(1, n + 1)] for c in chans]
            if [[list(x) for x in ch] for ch in fl] != wantf:
                out.append(f"flags {fl} != {wantf}")
    return out[:4]


def nontrivial_key(case, impl):
    if case["nch"] + case["npos"] < 3:
        return None
    if not (case["flags"] or any(m != "in" for m in case["modes"].values())):
        return None
    return (case["N"], tuple(sorted(case["ampl"].items())), tuple(sorted(case["modes"].items())),
            tuple(tuple(o[2:]) for o in case["prog"] if o[0] == "SSetSequencing"),
            tuple(sorted((k, tuple(v)) for k, v in case["flags"].items())))
