"""C16 - sequence concatenation is compositional, associative and retargets jumps."""
import numpy as np

from .elgen import CHAN_POOL, Regs
from .seqgen import build_sequence, delay_value, marked_bp

ID = "C16"
ALLOWED_AXIOMS = []
RULE = ("triples of consistent sequences (0-3 positions each, the left one sometimes empty) over the same 1-3 channels "
        "with identical AWG settings (SR, amplitudes, offsets, delays, filter compensations), blueprint and raw-array "
        "channels, optional subsequences, per-position sequencing with goto / jump targets in {-1, 0, positive}; a+b, "
        "(a+b)+c and a+(b+c) are forged, described and compared; a pair with one differing setting and a pair with an "
        "inconsistent operand must raise; pairs of blueprints (second without waituntil and absolute markers) are "
        "concatenated and forged. Non-trivial: both operands non-empty with at least one positive goto/jump target in "
        "the right operand; distinct by (lengths, sequencing values, settings).")
TRUST = ["C16 statement oracle: forge(a+b) position-wise equals forge(a) followed by forge(b), sequencing retargeted by "
         "len(a) for positive targets only, settings equal, operands' descriptions unchanged, (a+b)+c == a+(b+c)"]


def generate(rng, tier):
    n = 90 if tier == "quick" else 2500
    for _ci in range(n):
        yield gen_case(rng) if rng.random() < 0.8 else gen_bp_case(rng)


def settings_ops(rng, s, chans, SR, plan):
    ops = []
    for c in chans:
        ops += [("SSetAmp", s, c, plan["amp"][c]), ("SSetOff", s, c, plan["off"][c])]
        if plan["delay"][c]:
            ops.append(("SSetDelay", s, c, plan["delay"][c]))
        if plan["filt"][c]:
            ops.append(("SSetFilter", s, c) + plan["filt"][c])
    return ops


def gen_case(rng):
    regs = Regs()
    SR = rng.choice([100, 1000.0, 1e4, 25])
    N = rng.randint(6, 30)
    nch = rng.randint(1, 3)
    chans = rng.sample(CHAN_POOL, nch)
    kinds = {c: rng.choice(["bp", "bp", "arr"]) for c in chans}
    dl = {c: rng.choice([0, 0, delay_value(rng, SR)]) for c in chans}
    ds = sorted({round(v * SR) for v in dl.values()})
    if any(b - a == 1 for a, b in zip(ds, ds[1:])):
        dl = {c: 0 for c in chans}                    # stay clear of C10's known finding
    plan = {"amp": {c: rng.choice([2, 4]) for c in chans}, "off": {c: rng.choice([0, 0.25]) for c in chans},
            "delay": dl,
            "filt": {c: rng.choice([None, None, ("HP", 1, SR * 0.1, None), ("LP", 2, None, 1 / (SR * 0.5))]) for c in chans}}
    prog = [("HNumpyInts",)] if rng.random() < 0.3 else []      # sequencing values as numpy integer scalars
    regs_s = []
    lens = []
    for k in range(3):
        npos = rng.choice([0, 1, 2, 3]) if k == 0 else rng.randint(1, 3)
        s, ops, meta = build_sequence(rng, regs, SR, N, chans, npos, kinds, ["ramp", "ua", "sine"],
                                      subs=rng.random() < 0.3, waits=True)
        prog += ops + settings_ops(rng, s, chans, SR, plan)
        for pos in range(1, npos + 1):
            if rng.random() < 0.7:
                prog.append(("SSetSequencing", s, pos, "goto", rng.choice([0, 0, 1, npos, -1 if False else 0])))
            if rng.random() < 0.7:
                prog.append(("SSetSequencing", s, pos, "jump_target", rng.choice([-1, 0, 1, npos])))
            if rng.random() < 0.4:
                prog.append(("SSetSequencing", s, pos, rng.choice(["twait", "nrep", "jump_input"]), rng.choice([0, 1, 2, 5])))
        if rng.random() < 0.15:
            # a stale sequencing entry beyond the last position, as the deprecated non-validating setter leaves behind
            prog.append(("SSetSettings", s, npos + rng.choice([1, 2]), rng.choice([0, 1]), rng.choice([1, 3]), 0, rng.choice([0, 1])))
        regs_s.append(s)
        lens.append(npos)
    a, b, c = regs_s
    ab, ab_c, bc, a_bc = regs.S(), regs.S(), regs.S(), regs.S()
    prog += [("OSDescr", a), ("OSDescr", b), ("OSDescr", c),
             ("SAdd", a, b, ab), ("SAdd", ab, c, ab_c), ("SAdd", b, c, bc), ("SAdd", a, bc, a_bc),
             ("OSDescr", a), ("OSDescr", b), ("OSDescr", c),
             ("OSLen", ab), ("OSDescr", ab), ("OSForge", a, True, True, False), ("OSForge", b, True, True, False),
             ("OSForge", ab, True, True, False), ("OSEq", ab_c, a_bc), ("OSDescr", ab_c), ("OSDescr", a_bc),
             ("OSForge", ab_c, True, True, False), ("OSForge", a_bc, True, True, False), ("OSCheck", ab)]
    # error clauses: differing settings, inconsistent operand
    d, bad = regs.S(), regs.S()
    prog += [("SCopy", b, d), rng.choice([("SSetAmp", d, chans[0], 3), ("SSetSR", d, SR * 2),
                                           ("SSetAmp", d, chans[0], plan["amp"][chans[0]] * (1 + 3e-10)),      # settings equal up to the 10th digit are different settings
                                           ("SSetSR", d, SR * (1 + 2e-7)), ("SSetOff", d, chans[0], plan["off"][chans[0]] + 1e-12), ("SSetDelay", d, chans[0], dl[chans[0]] + 7 / SR),
                                           ("SSetFilter", d, chans[0], "HP", 3, SR * 0.2, None)]),
             ("SAdd", a, d, regs.S()), ("SAdd", d, a, regs.S())]
    e_extra, ops = __import__("harness.props.elgen", fromlist=["x"]).safe_element(rng, regs, SR, N, list(chans), kinds=kinds)
    prog += ops + [("SCopy", b, bad), ("SAddElement", bad, lens[1] + 2, e_extra), ("SAdd", a, bad, regs.S()), ("SAdd", bad, a, regs.S())]
    return {"prog": prog, "kind": "seq", "lens": lens, "regs": [a, b, c, ab, ab_c, bc, a_bc, d, bad],
            "has_arr": "arr" in kinds.values()}


def gen_bp_case(rng):
    regs = Regs()
    SR = rng.choice([100, 1000.0, 25])
    ra, opsa, _, segsa = marked_bp(rng, regs, SR, rng.randint(6, 30), ["ramp", "ua", "sine"], waits=True)
    rb, opsb, _, segsb = marked_bp(rng, regs, SR, rng.randint(6, 30), ["ramp", "ua", "sine"], waits=False)
    opsb = [o for o in opsb if o[0] != "BSetMarker"]        # no absolute-time marker in the second operand
    rc = regs.B()
    prog = opsa + opsb + [("OBDescr", ra), ("OBDescr", rb), ("BAdd", ra, rb, rc), ("OBDescr", ra), ("OBDescr", rb),
                          ("OBForge", ra), ("OBForge", rb), ("OBForge", rc), ("OBDescr", rc)]
    return {"prog": prog, "kind": "bp", "lens": [len(segsa), len(segsb)], "regs": [ra, rb, rc]}


def same_content(x, y):
    from harness import lang
    return not lang.compare_plain_dict(x, y)


def oracle(case, impl):
    from harness import lang
    prog = case["prog"]
    out = []
    R = {}
    for op, r in zip(prog, impl):
        R.setdefault((op[0],) + tuple(op[1:2]), []).append(r)
    if case["kind"] == "bp":
        ra, rb, rc = case["regs"]
        fa, fb, fc = R[("OBForge", ra)][0], R[("OBForge", rb)][0], R[("OBForge", rc)][0]
        if any(isinstance(x, lang.Err) for x in (fa, fb, fc)):
            return [f"forging raised: {fa} {fb} {fc}"]
        if R[("OBDescr", ra)][0] != R[("OBDescr", ra)][1] or R[("OBDescr", rb)][0] != R[("OBDescr", rb)][1]:
            out.append("blueprint + changed an operand")
        if not np.array_equal(fc["wfm"], np.concatenate((fa["wfm"], fb["wfm"]))):
            out.append("forge(a+b).wfm != forge(a).wfm ++ forge(b).wfm")
        na = len(fa["wfm"])
        if not np.array_equal(np.asarray(fc["m2"])[na:], fb["m2"]):
            out.append("second operand's segment-bound markers are not attached to its segments after +")
        return out
    a, b, c, ab, ab_c, bc, a_bc, d, bad = case["regs"]
    la, lb, lc = case["lens"]
    for r_ in (a, b, c):
        d0, d1 = R[("OSDescr", r_)][0], R[("OSDescr", r_)][1]
        if d0 != d1:
            out.append("an operand of + was changed")
    addres = [r for op, r in zip(prog, impl) if op[0] == "SAdd"]
    if any(isinstance(x, lang.Err) for x in addres[:4]):
        return out + [f"+ raised on consistent operands with identical settings: {addres[:4]}"]
    for x in addres[4:]:
        if not isinstance(x, lang.Err):
            out.append("+ accepted operands with differing settings or an inconsistent operand")
    if R[("OSLen", ab)][0] != la + lb:
        out.append(f"len(a+b) = {R[('OSLen', ab)][0]} != {la}+{lb}")
    fa, fb, fab = R[("OSForge", a)][0], R[("OSForge", b)][0], R[("OSForge", ab)][0]
    if la == 0:
        fa = {}                              # forging an empty sequence raises; it contributes no positions
    if any(isinstance(x, lang.Err) for x in (fa, fb, fab)):
        return out + [f"forge raised: {lang.short(fa, 40)} {lang.short(fb, 40)} {lang.short(fab, 40)}"]
    for p in range(1, la + lb + 1):
        src = fa[p] if p <= la else fb[p - la]
        got = fab[p]
        if got["type"] != src["type"] or lang.compare_plain_dict(got["content"], src["content"]):
            out.append(f"forge(a+b) position {p} differs from the operand's position")
        want = dict(src["sequencing"])
        if p > la:
            for k in ("goto", "jump_target"):
                if want[k] > 0:
                    want[k] += la
        if got["sequencing"] != want:
            out.append(f"a+b position {p}: sequencing {got['sequencing']} expected {want}")
    dab, da, db = R[("OSDescr", ab)][0], R[("OSDescr", a)][0], R[("OSDescr", b)][0]
    if dab["awgspecs"] != da["awgspecs"] or dab["awgspecs"] != db["awgspecs"]:
        out.append("a+b does not carry the operands' AWG settings")
    eq = R[("OSEq", ab_c)][0]
    if eq is not True and not (case["has_arr"] and isinstance(eq, lang.Err)):     # numpy arrays make == raise
        out.append(f"(a+b)+c != a+(b+c): == gave {eq}")
    if R[("OSDescr", ab_c)][0] != R[("OSDescr", a_bc)][0]:
        out.append("descriptions of (a+b)+c and a+(b+c) differ")
    f1, f2 = R[("OSForge", ab_c)][0], R[("OSForge", a_bc)][0]
    if isinstance(f1, lang.Err) or isinstance(f2, lang.Err) or lang.compare_plain_dict(f1, f2):
        out.append("forged (a+b)+c and a+(b+c) differ")
    return out[:4]


def nontrivial_key(case, impl):
    if case["kind"] == "bp":
        return ("bp", tuple(case["lens"]), tuple(o[3] for o in case["prog"] if o[0] == "BInsert"))
    la, lb, lc = case["lens"]
    if la == 0 or lb == 0:
        return None
    b = case["regs"][1]
    pos_t = [o for o in case["prog"] if o[0] == "SSetSequencing" and o[1] == b and o[3] in ("goto", "jump_target") and o[4] > 0]
    if not pos_t:
        return None
    return (tuple(case["lens"]), tuple(tuple(o[1:]) for o in case["prog"] if o[0] == "SSetSequencing"))
