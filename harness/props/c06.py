"""C06 - an element is valid iff all channels share sample rate and point count."""
from fractions import Fraction

import numpy as np

from .elgen import CHAN_POOL, Regs, aligned_segments, build_bp, const_rle, marker_rle

ID = "C06"
ALLOWED_AXIOMS = []
PROPS_FILES = ["C06", "Atomic"]
RULE = ("elements of 1-5 channels (int and str ids) mixing blueprints (aligned multi-segment, waits, some off-grid "
        "with equal total counts) and raw arrays (with m1/m2), all channels at a common SR and point count or with "
        "exactly one deviant SR / one channel off by 1-5 samples; validateDurations, points, duration, SR, "
        "getArrays (time on/off) and Sequence.addElement are observed; addArray with a marker of the wrong length. "
        "Non-trivial: >= 2 channels with at least one blueprint and (for invalid cases) exactly one deviation; "
        "distinct by (channel kinds, SR, counts, deviation).")
TRUST = ["C06 statement oracle: validity decided from the generator's construction (common SR, common count), "
         "lengths / duration / SR / raw arrays checked on the implementation's outputs"]


def generate(rng, tier):
    n = 150 if tier == "quick" else 4000
    for _ci in range(n):
        yield gen_case(rng)


def gen_case(rng):
    regs = Regs()
    SR = rng.choice([1, 12.5, 100, 1000.0, 1e4, 2.4e9, 25])
    N = rng.randint(4, 60)
    nch = rng.randint(1, 5)
    chans = rng.sample(CHAN_POOL, nch)
    deviation = rng.choice([None, None, None, "sr", "points", "points", "frac", "long"]) if nch > 1 else None
    dev_ch = rng.randrange(nch) if deviation else None
    if deviation == "long":
        # a one-sample deviation on long channels: any relative tolerance on durations would swallow it
        N = rng.choice([60000, 100001, 250000])
        SR = rng.choice([1000.0, 1e4, 2.4e9])
    e = regs.E()
    prog = [("ENew", e)]
    info = []
    offgrid = False
    for i, c in enumerate(chans):
        sr_i, n_i = SR, N
        if deviation == "sr" and i == dev_ch:
            # also rates that differ only in the 6th / 10th significant digit: unequal is unequal
            sr_i = SR * rng.choice([2, 0.5, 10, 1 + 3e-6, 1 + 2e-10, 1 - 4e-10]) if SR != 1 else rng.choice([2, 1 + 3e-6, 1 + 2e-10])
        if deviation == "points" and i == dev_ch:
            n_i = N + rng.choice([1, 2, 5, -1, -2]) if N > 6 else N + rng.choice([1, 2, 5])
        if deviation == "long" and i == dev_ch:
            n_i = N + rng.choice([1, -1, 2])
        if deviation == "frac":
            # durations a fraction of a sample apart (closer than half a sample) whose rounded point counts differ:
            # the other channels last (N + 0.3) samples -> N points, the deviating one (N + 0.7) samples -> N + 1 points
            n_i = N + 1 if i == dev_ch else N
            segs = aligned_segments(rng, sr_i, n_i, waits=False)
            f, a, d, nm, nn = segs[-1]
            segs[-1] = (f, a, (nn + (-0.3 if i == dev_ch else 0.3)) / sr_i, nm, nn)
            offgrid = True
            r, ops = build_bp(rng, regs, sr_i, segs, markers=True)
            prog += ops + [("EAddBp", e, c, r)]
            info.append(("bp", c, sr_i, n_i))
            continue
        if rng.random() < 0.6 and deviation != "long":
            segs = aligned_segments(rng, sr_i, n_i, waits=True)
            if rng.random() < 0.3 and segs[-1][0] != "waituntil":
                # off-grid last segment: same count, different duration (separates a tightened atol from the rule)
                f, a, d, nm, nn = segs[-1]
                d2 = (nn + rng.uniform(-0.4, 0.4)) / sr_i
                if abs(Fraction(d2) * Fraction(sr_i) - nn) <= Fraction(2, 5):
                    segs[-1] = (f, a, d2, nm, nn)
                    offgrid = True
            r, ops = build_bp(rng, regs, sr_i, segs, markers=True)
            prog += ops + [("EAddBp", e, c, r)]
            if rng.random() < 0.2:
                prog.append(("EAddFlags", e, c, [rng.choice([0, 1, "H", "", "T", 4]) for _ in range(4)]))
            info.append(("bp", c, sr_i, n_i))
        else:
            w = const_rle(rng, n_i)
            ms = []
            if rng.random() < 0.7:
                ms = [("m1", marker_rle(rng, n_i)), ("m2", marker_rle(rng, n_i))]
            prog.append(("EAddArray", e, c, w, sr_i, ms))
            info.append(("arr", c, sr_i, n_i))
    prog += [("OEValidate", e), ("OEPoints", e), ("OEDuration", e), ("OESR", e), ("OEChannels", e),
             ("OEArrays", e, False), ("OEArrays", e, True), ("OEArrays", e, False)]
    s = regs.S()
    prog += [("SNew", s), ("SSetSR", s, SR), ("SAddElement", s, 1, e), ("OSLen", s)]
    history = None
    if deviation is None and nch > 1 and rng.random() < 0.5:
        # histories through the validation cache: the element was valid and queried, is then edited, and must be
        # judged (and forged) by what it holds NOW
        he, hs = regs.E(), regs.S()
        prog += [("ECopy", e, he)]
        c0 = chans[rng.randrange(nch)]
        k = rng.random()
        if k < 0.35:
            history = "made-invalid"
            prog.append(("EAddArray", he, c0, const_rle(rng, N + rng.choice([1, 3, -1])), SR, []))
        elif k < 0.7 and nch > 1:
            history = "made-invalid"
            segs = aligned_segments(rng, SR, N + rng.choice([2, 5]))
            r, ops = build_bp(rng, regs, SR, segs)
            prog += ops + [("EAddBp", he, c0, r)]
        else:
            history = "new-rate"
            SR2 = SR * 2 if SR != 1 else 2
            N2 = N + rng.choice([0, 2, 4])
            for c in chans:
                segs = aligned_segments(rng, SR2, N2)
                r, ops = build_bp(rng, regs, SR2, segs)
                prog += ops + [("EAddBp", he, c, r)]
        prog += [("OEArrays", he, False), ("OEValidate", he), ("OEPoints", he), ("OESR", he), ("SNew", hs), ("SSetSR", hs, SR),
                 ("SAddElement", hs, 1, he), ("OSLen", hs), ("OEArrays", he, True)]
    if rng.random() < 0.25:
        # addArray refusing a marker of a different length (and what it leaves behind)
        e2 = regs.E()
        prog += [("ENew", e2), ("EAddArray", e2, 1, const_rle(rng, N), SR, [("m1", marker_rle(rng, N + rng.choice([1, -1, 3])))]),
                 ("OEChannels", e2), ("OEValidate", e2)]
    return {"prog": prog, "kind": deviation or "valid", "SR": SR, "N": N, "info": info, "deviation": deviation,
            "offgrid": offgrid, "history": history, "hist_regs": ([he, hs] if history else None)}


def oracle(case, impl):
    from harness import lang
    out = []
    prog = case["prog"]
    res = {}
    for i, (op, r) in enumerate(zip(prog, impl)):
        res.setdefault(op[0], []).append(r)
    valid = case["deviation"] is None
    val, pts, dur, sr = res["OEValidate"][0], res["OEPoints"][0], res["OEDuration"][0], res["OESR"][0]
    add = res["SAddElement"][0]
    if valid:
        for nm, v in (("validateDurations", val), ("points", pts), ("duration", dur), ("SR", sr), ("addElement", add)):
            if isinstance(v, lang.Err):
                out.append(f"{nm} raised {v.cls} on an element whose channels share SR and point count")
        if out:
            return out
        N, SR = case["N"], case["SR"]
        if pts != N:
            out.append(f"Element.points = {pts}, every channel has {N}")
        if not case["offgrid"] and abs(Fraction(dur) - Fraction(N) / Fraction(SR)) > Fraction(N, 10**9) / Fraction(SR):
            out.append(f"Element.duration = {dur} != points/SR = {N / SR}")
        if sr != SR:
            out.append(f"Element.SR = {sr} != common rate {SR}")
        arrs = res["OEArrays"][0]
        if isinstance(arrs, lang.Err):
            return out + [f"getArrays raised {arrs.cls}"]
        for kind, c, _s, _n in case["info"]:
            for k, a in arrs[c].items():
                if k in ("wfm", "m1", "m2") and len(a) != N:
                    out.append(f"channel {c!r} array {k} has {len(a)} samples, Element.points = {N}")
        # raw arrays come back sample for sample
        for op in prog:
            if op[0] == "EAddArray" and op[1] == 0:
                got = arrs[op[2]]
                if not np.array_equal(got["wfm"], lang.expand_rle(op[3])):
                    out.append(f"raw waveform on channel {op[2]!r} not returned as given")
                for nm, a in op[5]:
                    if not np.array_equal(got[nm], lang.expand_rle(a)):
                        out.append(f"raw marker {nm} on channel {op[2]!r} not returned as given")
    else:
        for nm, v in (("validateDurations", val), ("points", pts), ("duration", dur), ("SR", sr), ("addElement", add)):
            if not isinstance(v, lang.Err):
                out.append(f"{nm} accepted an element with a deviating {case['deviation']} ({case['info']})")
            elif v.cls != "ElementDurationError":
                out.append(f"{nm} raised {v.cls}, not ElementDurationError")
        if res["OSLen"][0] != 0:
            out.append("the sequence stored an element that fails validation")
    if case.get("history"):
        e2, s2 = case["hist_regs"]
        hv = [r for op, r in zip(prog, impl) if op[0] == "OEValidate" and op[1] == e2][0]
        ha = [r for op, r in zip(prog, impl) if op[0] == "SAddElement" and op[1] == s2][0]
        hl = [r for op, r in zip(prog, impl) if op[0] == "OSLen" and op[1] == s2][0]
        if case["history"] == "made-invalid":
            if not isinstance(hv, lang.Err) or not isinstance(ha, lang.Err) or hl != 0:
                out.append(f"an element that was valid, was queried and then edited so that one channel differs is still accepted "
                           f"(validateDurations: {lang.short(hv, 40)}, addElement: {lang.short(ha, 40)}, stored positions: {hl})")
        else:
            arrs = [r for op, r in zip(prog, impl) if op[0] == "OEArrays" and op[1] == e2]
            pts = [r for op, r in zip(prog, impl) if op[0] == "OEPoints" and op[1] == e2][0]
            if isinstance(hv, lang.Err) or isinstance(pts, lang.Err) or any(isinstance(a, lang.Err) for a in arrs):
                out.append(f"an element whose channels were all replaced (new common rate) is refused: {lang.short(hv, 40)}")
            else:
                for a in arrs:
                    for c, d in a.items():
                        if len(d["wfm"]) != pts:
                            out.append(f"after replacing all channels, channel {c!r} forges {len(d['wfm'])} samples, Element.points = {pts}")
    bad = [r for op, r in zip(prog, impl) if op[0] == "EAddArray" and op[1] == 1 and False]
    for r in bad:
        if not isinstance(r, lang.Err):
            out.append("addArray accepted a marker array whose length differs from the waveform's")
    return out[:4]


def nontrivial_key(case, impl):
    info = case["info"]
    if len(info) < 2 or not any(k == "bp" for k, *_ in info):
        return None
    return (tuple((k, str(c), s, n) for k, c, s, n in info), case["deviation"])
