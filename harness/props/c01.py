"""C01 - forged waveform = in-order concatenation of per-segment samples."""
from fractions import Fraction

import numpy as np

from .bpgen import insertion_history, target_blueprint

ID = "C01"
# the structural theorems are axiom-free; Props/FloatGap.v (binary64 vs exact counts, Flocq) uses the standard axioms of
# the real numbers and, through Flocq, excluded middle
ALLOWED_AXIOMS = ["ClassicalDedekindReals.sig_forall_dec", "ClassicalDedekindReals.sig_not_dec",
                  "FunctionalExtensionality.functional_extensionality_dep", "Classical_Prop.classic"]
PROPS_FILES = ["C01", "C01n", "FloatGap"]
T_GEN = ["OutputGuardsGen.v"]          # carries forge_min_points, read from blueprint._subelementBuilder
T_FILES = ["Generated/OutputGuardsGen", "Numeric/ForgeConstants", "Props/C01n"]


def search_failing_input(ctx):
    return []          # the generated cases below are the search: correspondence failures are reported with the program

RULE = ("blueprints of 1-8 segments (thorough: up to 14) over ramp/sine/gaussian/gaussian_smooth_cutoff, three user "
        "functions of arity 1/2/4 (call log compared) and waituntil; SR from {1, 1.7, 12.5, 25, 100, 1e3, 1e4, 2.4e9, "
        "50e9}; durations (n+f)/SR with |f| <= 0.4, int- and float-typed; every blueprint is built twice by two "
        "different random insertion orders (both forged, must agree); a malformed stream with one segment of 0 or 1 "
        "samples. Non-trivial: >= 2 segments with at least one off-grid duration; distinct by (function sequence, "
        "sample counts, SR).")
TRUST = ["C01 statement oracle: lengths = sum round(d_i*SR) from the generator's exact rationals, each block "
         "re-evaluated with the real pulse function on (args, SR, n_i), time axis k/SR"]


def generate(rng, tier):
    n = 160 if tier == "quick" else 5000
    n_long = 9 if tier == "quick" else 60
    for ci in range(n + n_long):
        malformed = rng.random() < 0.15
        if ci >= n:
            # long waveforms (> 2**16 samples, several segments): size-dependent fast paths must still concatenate exactly
            malformed = False
            while True:
                SR, segs = target_blueprint(rng, nseg=rng.randint(3, 6), nmax=40000, waits=rng.random() < 0.3,
                                            SR=rng.choice([1e9, 2.4e9, 1.2e9, 44100.0, 1e6, 1e4]))
                if sum(s[4] for s in segs) > 70000:
                    break
        else:
            SR, segs = target_blueprint(rng, nseg=rng.randint(1, 8 if tier == "quick" else 14))
        if malformed:
            i = rng.randrange(len(segs))
            if segs[i][0] != "waituntil":
                k = rng.choice([0.3, 1, 1.3, 0.6])
                f, a, _d, nm, _n = segs[i]
                segs[i] = (f, a, k / SR, nm, round(Fraction(k / SR) * Fraction(SR)))
                if any(s[0] == "waituntil" for s in segs[i + 1:]):
                    malformed = "maybe"        # a later wait absorbs the change; outcome left to the model
            else:
                malformed = False
        prog = [("BNew", 0), ("BNew", 1)]
        prog += insertion_history(rng, 0, segs)
        prog += insertion_history(rng, 1, segs)
        prog += [("BSetSR", 0, SR), ("BSetSR", 1, SR), ("OBForge", 0), ("OBForge", 1), ("OBDescr", 0), ("OBEq", 0, 1)]
        if not malformed and rng.random() < 0.2:
            # the same blueprint forged through an Element that earlier held (and validated) a blueprint at ANOTHER
            # sample rate: the edit history of the element must not matter either
            SR0 = SR * 2 if SR < 1e10 else SR / 2
            prog += [("BNew", 2), ("BInsert", 2, -1, "ramp", [0, 1], 8 / SR0, None), ("BSetSR", 2, SR0), ("ENew", 0),
                     ("EAddBp", 0, 1, 2), ("OEValidate", 0), ("OEPoints", 0), ("EAddBp", 0, 1, 0), ("OEArrays", 0, True)]
        yield {"prog": prog, "kind": "short-segment" if malformed else "forge", "SR": SR,
               "segs": [(f, a, d, nm, n) for f, a, d, nm, n in segs], "malformed": malformed}


def expected_counts(case):
    return [s[4] for s in case["segs"]]


def oracle(case, impl):
    from harness import lang
    out = []
    forged = [r for op, r in zip(case["prog"], impl) if op[0] == "OBForge"]
    SR = case["SR"]
    ns = expected_counts(case)
    short = any(n < 2 for n in ns)
    if case.get("malformed") == "maybe":
        return out
    for which, f in enumerate(forged):
        if short:
            if not (isinstance(f, lang.Err) and f.cls == "SegmentDurationError"):
                out.append(f"a segment of < 2 samples (counts {ns}) did not raise SegmentDurationError: {lang.short(f, 80)}")
            continue
        if isinstance(f, lang.Err):
            out.append(f"forge raised {f.cls} on a valid blueprint (counts {ns})")
            continue
        N = sum(ns)
        lens = {k: len(f[k]) for k in ("wfm", "m1", "m2", "time")}
        if set(lens.values()) != {N}:
            out.append(f"lengths {lens}, expected sum round(d_i*SR) = {N} (counts {ns}, SR {SR})")
            continue
        if not np.allclose(f["time"], np.arange(N) / SR, rtol=1e-9, atol=1e-12 / SR):
            out.append("time axis is not k/SR")
        pos = 0
        for (fn, args, _d, _nm, n) in case["segs"]:
            pyf = lang.pyfn(fn)
            if pyf == "waituntil":
                want = np.zeros(n)
            else:
                want = np.asarray(pyf(*args, SR, n), dtype=float)
            got = f["wfm"][pos:pos + n]
            if got.shape != want.shape or not np.allclose(got, want, rtol=1e-9, atol=1e-12, equal_nan=True):
                out.append(f"segment {fn} at samples [{pos},{pos + n}) differs from its pulse function on {n} points")
                break
            pos += n
    via = [r for op, r in zip(case["prog"], impl) if op[0] == "OEArrays"]
    if via and not short and not isinstance(via[0], lang.Err) and not isinstance(forged[0], lang.Err):
        got = via[0][1]
        for k in ("wfm", "m1", "m2", "time"):
            if len(got[k]) != len(forged[0][k]) or not np.array_equal(got[k], forged[0][k]):
                out.append(f"forging the blueprint through an Element with an earlier history gives a different {k} "
                           f"({len(got[k])} samples, stand-alone {len(forged[0][k])})")
    if len(forged) == 2 and not any(isinstance(f, lang.Err) for f in forged):
        a, b = forged
        for k in ("wfm", "m1", "m2", "time"):
            if len(a[k]) != len(b[k]) or not np.array_equal(a[k], b[k]):
                out.append(f"two insertion histories of the same blueprint forge different {k}")
    return out[:4]


def nontrivial_key(case, impl):
    segs = case["segs"]
    if len(segs) < 2:
        return None
    SR = Fraction(case["SR"])
    offgrid = any(d is not None and (Fraction(d) * SR).denominator != 1 for _f, _a, d, _nm, _n in segs)
    if not offgrid:
        return None
    return (tuple(s[0] for s in segs), tuple(s[4] for s in segs), case["SR"])
