"""C07 - sequence consistency gate: only gap-free, homogeneous sequences produce output."""
from .elgen import CHAN_POOL, Regs, safe_element

ID = "C07"
ALLOWED_AXIOMS = []
RULE = ("sequences of 0-6 entries (elements and non-nested subsequences) added at arbitrary positions in arbitrary "
        "order, with overwriting and gaps, one entry optionally deviating in channel set (sub/superset/other ids, "
        "same ids in another order) or sample rate, and a random subset of the required settings (SR, amplitudes, "
        "offsets, sequencing entries); checkConsistency, channels, forge, a+b, b+a, repeatAndVarySequence, "
        "outputForAWGFile, outputForSEQXFile(+WithFlags) are all invoked. Non-trivial: >= 2 entries and either a "
        "permuted insertion order or exactly one deviation / missing setting; distinct by (positions in insertion "
        "order, entry kinds, deviation, settings present).")
TRUST = ["C07 statement oracle: consistency decided from the generator's construction (filled positions, channel "
         "sets, rates); every entry point must raise on an inconsistent sequence and the outputs on missing settings"]


def generate(rng, tier):
    n = 160 if tier == "quick" else 4000
    for _ci in range(n):
        yield gen_case(rng)
    for _ci in range(6 if tier == "quick" else 120):
        yield gen_stuck(rng)


def gen_stuck(rng):
    """The gate after a refused call: a consistent, fully specified sequence; one of the producers is refused late (a
    voltage outside its channel range, a sequencing value outside the instrument range) or early; then the sequence is
    made inconsistent (another channel set / another rate at one position, through addElement or through the element
    handle) and every producer must refuse it - whatever the refused call left behind."""
    regs = Regs()
    SR = rng.choice([100, 1000.0, 1e4])
    N = rng.randint(6, 30)
    chans = rng.sample(CHAN_POOL, rng.randint(1, 2))
    kinds = {c: "bp" for c in chans}
    s = regs.S()
    prog = [("SNew", s), ("SSetSR", s, SR)]
    npos = rng.randint(2, 3)
    for pos in range(1, npos + 1):
        e, ops = safe_element(rng, regs, SR, N, list(chans), kinds=kinds)
        prog += ops + [("SAddElement", s, pos, e)]
    for c in chans:
        prog += [("SSetAmp", s, c, 2), ("SSetOff", s, c, 0)]
    prog += [("OSCheck", s), ("OSForge", s, True, True, False)]
    refusal = rng.choice(["range", "range", "sequencing", "none"])
    if refusal == "range":
        prog.append(("SSetAmp", s, chans[0], 0.0009765625))
    elif refusal == "sequencing":
        prog.append(("SSetSequencing", s, 1, "nrep", 70000))
    exports = [("OSAwg", s, ("slice", None, None, None)), ("OSSeqx", s, False), ("OSSeqx", s, True)]
    rng.shuffle(exports)
    prog += exports[:rng.randint(1, 3)]
    if refusal == "range":
        prog.append(("SSetAmp", s, chans[0], 2))
    elif refusal == "sequencing":
        prog.append(("SSetSequencing", s, 1, "nrep", 1))
    # now break it
    how = rng.choice(["handle_chan", "handle_chan", "add_chan", "add_rate"])
    r = regs.B()
    pos = rng.randint(1, npos)
    SR2 = SR * 2 if how == "add_rate" else SR
    prog += [("BNew", r), ("BInsert", r, -1, "ramp", [0, 0.125], N / SR2, "h"), ("BSetSR", r, SR2)]
    if how == "handle_chan":
        prog.append(("SElemAddBp", s, pos, 97, r))
    else:
        e2 = regs.E()
        prog.append(("ENew", e2))
        for c in (chans + [97] if how == "add_chan" else chans):
            prog.append(("EAddBp", e2, c, r))
        prog.append(("SAddElement", s, pos, e2))
    t = regs.S()
    prog += [("SNew", t), ("SSetSR", t, SR)]
    e, ops = safe_element(rng, regs, SR, N, list(chans), kinds=kinds)
    prog += ops + [("SAddElement", t, 1, e)]
    for c in chans:
        prog += [("SSetAmp", t, c, 2), ("SSetOff", t, c, 0)]
    u, v, w = regs.S(), regs.S(), regs.S()
    prog += [("OSCheck", s), ("OSChannels", s), ("OSForge", s, rng.random() < 0.5, True, False), ("SAdd", s, t, u), ("SAdd", t, s, v),
             ("TRepeat", s, [1], [chans[0]], ["zzz"], ["duration"], [[0.5]], w),
             ("OSAwg", s, ("slice", None, None, None)), ("OSSeqx", s, False), ("OSSeqx", s, True)]
    return {"prog": prog, "kind": "stuck-" + refusal + "-" + how, "stuck": True, "n_setup": 0, "nent": npos, "order": list(range(1, npos + 1)),
            "entries": {}, "deviation": how, "missing": None, "have_sr": True, "long": False, "chans": [str(c) for c in chans],
            "positions": list(range(1, npos + 1))}


def gen_case(rng):
    regs = Regs()
    SR = rng.choice([100, 1000.0, 1e4, 25])
    long = rng.random() < 0.25
    N = 2400 if long else rng.randint(4, 40)
    nch = rng.randint(1, 3)
    chans = rng.sample(CHAN_POOL, nch)
    nent = rng.randint(0, 6 if not long else 3)
    gap = rng.random() < 0.2 and nent > 0
    positions = list(range(1, nent + 1))
    if gap:
        if rng.random() < 0.4:
            positions[0] = rng.choice([0, 0, -1])              # a filled position <= 0 ...
            if nent > 1 and rng.random() < 0.6:
                positions[-1] = nent + 1                       # ... possibly with a compensating hole higher up
        else:
            positions[rng.randrange(nent)] = nent + rng.choice([1, 2])
    order = positions[:]
    rng.shuffle(order)
    if rng.random() < 0.25 and order:
        order.append(rng.choice(order))                 # overwrite an existing position
    deviation = rng.choice([None, None, None, "chans", "sr", "order"]) if nent >= 2 else None
    dev_pos = rng.choice(order) if deviation else None
    force_subs = deviation == "sr" and rng.random() < 0.5
    s = regs.S()
    prog = [("SNew", s)]
    have_sr = rng.random() < 0.9
    if have_sr:
        prog.append(("SSetSR", s, SR))
    kinds = {c: rng.choice(["bp", "bp", "arr"]) for c in chans}
    entries = {}
    for idx, pos in enumerate(order):
        ch, sr_i = list(chans), SR
        last_write = pos not in order[idx + 1:]
        if deviation and pos == dev_pos and last_write:
            if deviation == "chans":
                ch = rng.choice([chans[:-1] or [99], chans + [99], [98] + chans[1:]])
            elif deviation == "sr":
                sr_i = SR * rng.choice([2, 2, 1 + 3e-6, 1 + 2e-10])          # rates a few ppm / a fraction of a ppb apart are different rates
            elif deviation == "order":
                ch = list(reversed(chans))
        rng.random() < 0.5 and ch.reverse()
        as_sub = rng.random() < 0.2 and not long and sr_i == SR
        if force_subs and sr_i == SR and not long:
            as_sub = True          # the only plain element is the one with the deviating rate
        if as_sub:
            s2 = regs.S()
            prog += [("SNew", s2), ("SSetSR", s2, SR)]
            for k in range(1, rng.randint(1, 2) + 1):
                e, ops = safe_element(rng, regs, sr_i, N, ch, kinds={c: kinds.get(c, "bp") for c in ch})
                prog += ops + [("SAddElement", s2, k, e)]
            prog.append(("SAddSub", s, pos, s2))
            entries[pos] = ("sub", tuple(sorted(map(str, ch))), sr_i)
        else:
            e, ops = safe_element(rng, regs, sr_i, N, ch, kinds={c: kinds.get(c, "bp") for c in ch}, flags=True)
            prog += ops + [("SAddElement", s, pos, e)]
            entries[pos] = ("el", tuple(sorted(map(str, ch))), sr_i)
    missing = rng.choice([None, None, "amp", "off", "seq"]) if nent else None
    for i, c in enumerate(chans):
        if not (missing == "amp" and i == 0):
            prog.append(("SSetAmp", s, c, 2))
        if not (missing == "off" and i == 0):
            prog.append(("SSetOff", s, c, 0))
    if missing == "seq":
        prog.append(("SSetSettings", s, max(positions) + 3, 0, 1, 0, 0))
    # a consistent partner for + and the entry points
    t = regs.S()
    prog += [("SNew", t), ("SSetSR", t, SR)]
    e, ops = safe_element(rng, regs, SR, N, list(chans), kinds=kinds)
    prog += ops + [("SAddElement", t, 1, e)]
    for c in chans:
        prog += [("SSetAmp", t, c, 2), ("SSetOff", t, c, 0)]
    if missing == "seq":
        prog.append(("SSetSettings", t, max(positions) + 3, 0, 1, 0, 0))
    u, v, w = regs.S(), regs.S(), regs.S()
    first_name = "zzz"
    prog += [("OSSR", s), ("OSCheck", s), ("OSChannels", s), ("OSForge", s, True, True, False), ("SAdd", s, t, u), ("SAdd", t, s, v),
             ("TRepeat", s, [1], [chans[0]], [first_name], ["duration"], [[0.5]], w),
             ("OSAwg", s, ("slice", None, None, None)), ("OSSeqx", s, False), ("OSSeqx", s, True), ("OSLen", u), ("OSLen", v)]
    # forge with its other option combinations (delays / filters off, time axis on): the gate does not depend on them
    fl = rng.choice([(False, False, False), (False, True, False), (True, False, True), (False, False, True)])
    prog.append(("OSForge", s) + fl)
    return {"prog": prog, "kind": deviation or ("gap" if gap else ("missing-" + missing if missing else "consistent")),
            "positions": positions, "order": order, "entries": {str(k): v for k, v in entries.items()},
            "have_sr": have_sr, "missing": missing, "deviation": deviation, "nent": nent, "long": long,
            "chans": [str(c) for c in chans]}


def case_sr(case):
    return next(o[2] for o in case["prog"] if o[0] == "SSetSR")


def oracle(case, impl):
    from harness import lang
    out = []
    prog = case["prog"]
    if case.get("stuck"):
        # everything after the last SAddElement / SElemAddBp into the first sequence is asked of an inconsistent sequence
        s = prog[0][1]
        last = max(i for i, op in enumerate(prog) if op[0] in ("SElemAddBp", "SAddElement") and op[1] == s)
        if isinstance(impl[last], lang.Err):
            return out
        first = [r for op, r in zip(prog[:last], impl[:last]) if op[0] == "OSCheck"]
        if first and first[0] is not True:
            out.append(f"checkConsistency returned {first[0]!r} for the consistent sequence it was built as")
        for i in range(last + 1, len(prog)):
            op, r = prog[i], impl[i]
            if op[0] == "OSCheck" and op[1] == s:
                if r is not False and not isinstance(r, lang.Err):
                    out.append(f"checkConsistency returned {r!r} after the sequence was made inconsistent ({case['kind']})")
            elif (op[0] in ("OSChannels", "OSForge", "OSAwg", "OSSeqx") and op[1] == s) or (op[0] == "SAdd" and s in op[1:3]) or \
                    (op[0] == "TRepeat" and op[1] == s):
                if not isinstance(r, lang.Err):
                    out.append(f"{op[0]} produced output on a sequence made inconsistent after a refused call ({case['kind']})")
        return out[:4]
    res = {}
    for op, r in zip(prog, impl):
        res.setdefault(op[0], []).append(r)
    chk = res["OSCheck"][0]
    if res["OSSR"][0] != (case_sr(case) if case["have_sr"] else -1):
        out.append(f"Sequence.SR is {res['OSSR'][0]!r}, expected the setting or -1 when none was made")
    if not case["have_sr"]:
        return out                        # checkConsistency raises without a sample rate: outside the iff
    ent = case["entries"]
    filled = sorted(int(k) for k in ent)
    N = len(filled)
    gapfree = filled == list(range(1, N + 1))
    srs = {v[2] for v in ent.values()}
    chs = {tuple(v[1]) for v in ent.values()}
    added_ok = all(not isinstance(r, lang.Err) for op, r in zip(prog, impl) if op[0] in ("SAddElement", "SAddSub") and op[1] == 0)
    if not added_ok:
        return out                        # a subsequence was refused (e.g. deviating SR): nothing stored, skip
    want = gapfree and len(srs) <= 1 and len(chs) <= 1
    if isinstance(chk, lang.Err):
        out.append(f"checkConsistency raised {chk.cls}")
        return out
    if chk != want:
        out.append(f"checkConsistency returned {chk}, expected {want} (positions {case['order']}, channel sets {sorted(chs)}, rates {sorted(srs)})")
    if not want:
        names = ["channels", "forge", "s+t", "t+s", "repeatAndVarySequence", "outputForAWGFile", "outputForSEQXFile",
                 "outputForSEQXFileWithFlags"]
        vals = [res["OSChannels"][0], res["OSForge"][0], res["SAdd"][0], res["SAdd"][1], res["TRepeat"][0],
                res["OSAwg"][0], res["OSSeqx"][0], res["OSSeqx"][1]]
        if len(res["OSForge"]) > 1:
            fo = [op for op in prog if op[0] == "OSForge"][1]
            names.append(f"forge(apply_delays={fo[2]}, apply_filters={fo[3]}, includetime={fo[4]})")
            vals.append(res["OSForge"][1])
        for nm, v in zip(names, vals):
            if not isinstance(v, lang.Err):
                out.append(f"{nm} produced output on an inconsistent sequence")
    elif case["missing"] and N:
        awg, sx, sxf = res["OSAwg"][0], res["OSSeqx"][0], res["OSSeqx"][1]
        if case["missing"] in ("amp", "seq"):
            for nm, v in (("outputForAWGFile", awg), ("outputForSEQXFile", sx), ("outputForSEQXFileWithFlags", sxf)):
                if not isinstance(v, lang.Err):
                    out.append(f"{nm} produced output although a required setting ({case['missing']}) is missing")
        if case["missing"] == "off" and not isinstance(awg, lang.Err):
            out.append("outputForAWGFile produced output without a channel offset")
    return out[:4]


def nontrivial_key(case, impl):
    if case.get("stuck"):
        return ("stuck", case["kind"], tuple(o[0] for o in case["prog"][-14:]))
    if case["nent"] < 2:
        return None
    permuted = case["order"] != sorted(case["order"])
    if not (permuted or case["deviation"] or case["missing"]):
        return None
    return (tuple(case["order"]), tuple(sorted((k, v[0]) for k, v in case["entries"].items())), case["deviation"],
            case["missing"], case["have_sr"])
