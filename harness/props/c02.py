"""C02 - built-in pulse shapes equal their documented closed forms (tie T)."""
from . import c01
from .. import numeric

ID = "C02"
T_GEN = ["PulseAtomsGen.v"]
T_FILES = ["Generated/PulseAtomsGen", "Numeric/Atoms", "Props/C02"]
PROPS_FILES = ["C02", "C02h"]       # C02h: call convention of user shapes (hand model)
ALLOWED_AXIOMS = ["ClassicalDedekindReals.sig_forall_dec", "ClassicalDedekindReals.sig_not_dec",
                  "FunctionalExtensionality.functional_extensionality_dep"]
RULE = ("tie T: PulseAtoms.* re-translated from src/broadbean/broadbean.py into Gallina on this run and the closed-form "
        "theorems of coq/Numeric/Atoms.v re-checked against the generated text; numpy primitives of "
        "coq/Numeric/NumpyPrims.v validated against numpy; numeric closed-form oracle on random arguments in the "
        "physically sensible ranges (|x| <= 10 V, 0 <= freq <= SR/2, sigma > 0, SR in 1..50e9, n >= 2 incl. 2, 3 and "
        "odd/even sizes); plus forged blueprints with the recording user functions of arity 1/2/4 (call convention: "
        "called once per forge with the stored arguments, the blueprint's SR and the integer count - compared with the "
        "model's call log). Non-trivial numeric case: distinct (SR, n, arguments).")
TRUST = ["translator/py2coq.py (fail-closed Python-ast -> Gallina) and its reading of numpy in coq/Numeric/NumpyPrims.v "
         "(linspace without end point, broadcasting), validated numerically on this run",
         "floating-point error of sin/exp and of the time axis is measured (rtol 1e-9), not proved",
         "standard-library axioms of the real numbers as reported by Print Assumptions"]


def generate(rng, tier):
    """Forged blueprints exercising the call convention of user-supplied shapes."""
    n = 40 if tier == "quick" else 800
    k = 0
    # pulse trains: the same user shape with equal arguments and equal length several times in one blueprint -
    # every segment is one call, identical or not
    from .bpgen import insertion_history
    for _ in range(6 if tier == "quick" else 100):
        SR = rng.choice([1, 100, 1e4, 2.4e9, 50e9])
        f = rng.choice(["ua", "ub2", "uc"])
        a = {"ua": [0.5], "ub2": [0.25, -1.5], "uc": [1, 2, 3, 4]}[f]
        cnt = rng.randint(2, 12)
        d = cnt / SR
        segs = []
        for j in range(rng.randint(2, 4)):
            segs.append((f, a, d, rng.choice([None, "p"]), cnt))
            if rng.random() < 0.4:
                segs.append(("ramp", [0, 0], rng.randint(2, 9) / SR, None, None))
        segs = [(g, x, dd, nm, c if c is not None else round(dd * SR)) for g, x, dd, nm, c in segs]
        prog = [("BNew", 0), ("BNew", 1)] + insertion_history(rng, 0, segs) + insertion_history(rng, 1, segs)
        prog += [("BSetSR", 0, SR), ("BSetSR", 1, SR), ("OBForge", 0), ("OBForge", 1), ("OBDescr", 0), ("OBEq", 0, 1)]
        yield {"prog": prog, "kind": "pulse-train", "SR": SR, "segs": segs, "malformed": False}
    for case in c01.generate(rng, tier):
        if any(s[0] in ("ua", "ub2", "uc") for s in case["segs"]) and not case["malformed"]:
            yield case
            k += 1
            if k >= n:
                return


def oracle(case, impl):
    from harness import lang
    out = []
    forged = [r for op, r in zip(case["prog"], impl) if op[0] == "OBForge"]
    want = [(f, list(a), case["SR"], n) for f, a, _d, _nm, n in case["segs"] if f in ("ua", "ub2", "uc")]
    for f in forged:
        if isinstance(f, lang.Err):
            continue
        got = [(nm, list(a), SR, int(n)) for nm, a, SR, n in f["calls"]]
        if got != want:
            out.append(f"user functions were called with {got}, expected exactly once each with {want}")
        if not all(isinstance(n, (int,)) or hasattr(n, "__index__") for _nm, _a, _s, n in f["calls"]):
            out.append("the sample count handed to a user function is not an integer")
    return out[:3]


def nontrivial_key(case, impl):
    return c01.nontrivial_key(case, impl)


def extra_checks(ctx):
    import random
    rng = random.Random(ctx["seed"] + 2)
    nprim, pf = numeric.validate_prims(rng)
    for f in pf[:3]:
        ctx["report"](f"numpy primitive differs from coq/Numeric/NumpyPrims.v: {f}", {"primitive": f}, False)
    n = 400 if ctx["tier"] == "quick" else 20000
    cases = list(numeric.c02_cases(rng, n))
    keys = set()
    nfail = 0
    for c in cases:
        keys.add((c["SR"], c["npts"], tuple(c["sine"])))
        try:
            fails = numeric.c02_oracle(c)
        except Exception as e:  # noqa: BLE001
            fails = [f"PulseAtoms raised {type(e).__name__} on valid arguments: {str(e)[:120]}"]
        if fails and nfail < 3:
            nfail += 1
            ctx["report"](fails[0], {"numeric_case": c, "oracle_failures": fails}, True)
    return {"evaluations": len(cases) + nprim, "distinct_nontrivial": len(keys), "samples": [{"numeric_case": cases[0]}],
            "numpy_primitive_checks": nprim}


def search_failing_input(ctx):
    import random
    rng = random.Random(ctx["seed"] + 3)
    out = []
    for c in numeric.c02_cases(rng, 3000):
        try:
            fails = numeric.c02_oracle(c)
        except Exception as e:  # noqa: BLE001
            fails = [f"PulseAtoms raised {type(e).__name__} on valid arguments: {str(e)[:120]}"]
        if fails:
            out.append((fails[0], {"numeric_case": c, "oracle_failures": fails}))
            if len(out) >= 3:
                break
    return out


def replay(case):
    """Re-run the numeric statement oracle on the input stored in a replay file."""
    return numeric.c02_oracle(case)
