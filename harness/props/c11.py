"""C11 - declared filter compensation = ripasso inverse filter on the forged waveform."""
import numpy as np

from .elgen import CHAN_POOL, Regs
from .seqgen import build_sequence, delay_value

ID = "C11"
ALLOWED_AXIOMS = []
RULE = ("consistent sequences as in C10 (1-3 positions, 1-3 channels, shuffled channel orders, blueprint and raw-array "
        "channels, optional subsequences) with, per channel, a filter compensation from {none, HP, LP} x order in "
        "{-2,-1,1,2,3} x (f_cut | tau = 1/f_cut) at cut-offs 1e-3*SR..3*SR, combined with arbitrary whole-sample delays; "
        "forge with filters on/off, outputForAWGFile and outputForSEQXFile; a malformed stream of specifications "
        "(unknown kind, non-integer order, both tau and f_cut). Non-trivial: at least one declared and one undeclared "
        "channel or two different declarations; distinct by (declarations, delays, kinds, SR).")
TRUST = ["C11 statement oracle: forge(filters on) == ripasso.applyInverseRCFilter(forge(filters off), SR, kind, "
         "f_cut or 1/tau, order, DCgain=1) on declared channels, identical elsewhere and on all markers; AWG/SEQX "
         "paths compared with forge"]


def generate(rng, tier):
    n = 100 if tier == "quick" else 3000
    for _ci in range(n):
        yield gen_case(rng, allow_big=_ci < 400)          # bounded number of very long cases (memory), also in the thorough tier
        if _ci % 5 == 0:
            yield gen_history(rng)


def gen_history(rng):
    """A second phase on the same objects after the first forge / export: the sequence's sample rate is changed, or the
    sequence is added to itself / copied and a compensation re-declared on the result - each object must deliver the
    compensation declared for IT, at ITS current sample rate, whatever was forged before."""
    while True:
        case = gen_case(rng, allow_big=False)
        if not case["long"] and not case["has_sub"] and case["decl"]:
            break
    ops = list(case["prog"])
    s = next(o[1] for o in ops if o[0] == "OSForge")
    SR = case["SR"]
    phases = []
    mode = rng.choice(["rate", "sum", "copy"])
    if mode == "rate":
        SR2 = SR * rng.choice([2, 0.5, 4])
        ops += [("SSetSR", s, SR2), ("OSForge", s, True, False, False), ("OSForge", s, True, True, False)]
        phases.append({"SR": SR2, "decl": case["decl"], "what": f"after setSR({SR2})"})
    else:
        t = max(o[1] for o in ops if o[0] in ("SNew",)) + 1
        ops.append(("SAdd", s, s, t) if mode == "sum" else ("SCopy", s, t))
        c = rng.choice(sorted(case["decl"]))
        cc = int(c) if c.lstrip("-").isdigit() else c
        kind, order, f = rng.choice(["HP", "LP"]), rng.choice([1, 2, -1]), SR * rng.choice([0.05, 0.3, 2])
        ops += [("SSetFilter", t, cc, kind, order, f, None), ("OSForge", s, True, False, False), ("OSForge", s, True, True, False),
                ("OSForge", t, True, False, False), ("OSForge", t, True, True, False)]
        phases.append({"SR": SR, "decl": case["decl"], "what": f"the operand after re-declaring channel {c} on its {mode}"})
        phases.append({"SR": SR, "decl": dict(case["decl"], **{c: (kind, order, f)}), "what": f"the {mode} with channel {c} re-declared"})
    return dict(case, prog=ops, kind="history-" + mode, phases=phases)


def gen_case(rng, allow_big=True):
    regs = Regs()
    SR = rng.choice([100, 1000.0, 1e4, 25, 2.4e9])
    long = rng.random() < 0.15
    N = 2400 if long else rng.randint(6, 48)
    if allow_big and rng.random() < 0.03:
        long, N = True, rng.choice([70001, 100000])       # beyond 2**16 samples (and not a power of two)
    nch = rng.randint(1, 3) if N < 10000 else rng.randint(1, 2)
    chans = rng.sample(CHAN_POOL, nch)
    kinds = {c: rng.choice(["bp", "bp", "arr"]) for c in chans}
    subs = rng.random() < 0.3 and not long
    s, ops, meta = build_sequence(rng, regs, SR, N, chans, rng.randint(1, 3 if not long else 2), kinds,
                                  ["ramp", "ua", "sine"], subs=subs, waits=True)
    decl = {}
    for c in chans:
        if rng.random() < 0.3:
            # an earlier declaration that the later one must replace completely (f_cut <-> tau, kind, order)
            f0 = SR * rng.choice([0.02, 0.2, 2])
            ops.append(("SSetFilter", s, c, rng.choice(["HP", "LP"]), rng.choice([-1, 1, 2]),
                        *rng.choice([(f0, None), (None, 1 / f0)])))
            decl[str(c)] = (ops[-1][3], ops[-1][4], f0)
        if str(c) in decl or rng.random() < 0.65:
            kind = rng.choice(["HP", "LP"])
            order = rng.choice([-2, -1, 1, 1, 2, 3])
            f = SR * rng.choice([1e-3, 0.01, 0.1, 0.5, 1, 3])
            if rng.random() < 0.5:
                ops.append(("SSetFilter", s, c, kind, order, f, None))
                decl[str(c)] = (kind, order, f)
            else:
                tau = 1 / f
                ops.append(("SSetFilter", s, c, kind, order, None, tau))
                decl[str(c)] = (kind, order, 1 / tau)
        if rng.random() < 0.12:
            # malformed specifications must be rejected when they are set (and leave the old one in place)
            ops.append(rng.choice([("SSetFilter", s, c, "BP", 1, 10.0, None), ("SSetFilter", s, c, "HP", None, 10.0, None),
                                   ("SSetFilter", s, c, "LP", 1, 10.0, 0.1)]))
    delays = {}
    for c in chans:
        d = rng.choice([0, delay_value(rng, SR)])
        if d:
            ops.append(("SSetDelay", s, c, d))
        delays[str(c)] = d
        ops += [("SSetAmp", s, c, rng.choice([2, 8])), ("SSetOff", s, c, 0)]
    # avoid the known one-sample post-padding finding of C10 here
    ds = sorted({round(v * SR) for v in delays.values()})
    if any(b - a == 1 for a, b in zip(ds, ds[1:])):
        ops = [o for o in ops if o[0] != "SSetDelay"]
        delays = {k: 0 for k in delays}
    ops += [("OSChannels", s), ("OSForge", s, True, False, False), ("OSForge", s, True, True, False),
            ("OSAwg", s, ("slice", None, None, None)), ("OSSeqx", s, False)]
    has_sub = "sub" in meta["positions"].values()
    return {"prog": ops, "kind": "sub" if has_sub else ("long" if long else "plain"), "SR": SR, "decl": decl,
            "delays": delays, "kinds": {str(c): k for c, k in kinds.items()}, "has_sub": has_sub, "long": long,
            "amps": {str(o[2]): o[3] for o in ops if o[0] == "SSetAmp"}}


def oracle(case, impl):
    from harness import lang
    from broadbean import ripasso
    out = []
    prog = case["prog"]
    forges = [r for op, r in zip(prog, impl) if op[0] == "OSForge"]
    later, forges = forges[2:], forges[:2]
    awg = [r for op, r in zip(prog, impl) if op[0] == "OSAwg"][0]
    sx = [r for op, r in zip(prog, impl) if op[0] == "OSSeqx"][0]
    chans_r = [r for op, r in zip(prog, impl) if op[0] == "OSChannels"][0]
    for op, r in zip(prog, impl):
        if op[0] == "SSetFilter" and (op[3] not in ("HP", "LP") or op[4] is None or (op[5] is not None and op[6] is not None)):
            if not isinstance(r, lang.Err):
                out.append(f"invalid filter specification {op[3:]} was accepted")
    off, on = forges
    if isinstance(off, lang.Err) or isinstance(on, lang.Err):
        return out + [f"forge raised on a consistent sequence: {lang.short(off, 50)} / {lang.short(on, 50)}"]
    SR = case["SR"]
    for k, ph in enumerate(case.get("phases", [])):
        o2, n2 = later[2 * k], later[2 * k + 1]
        if isinstance(o2, lang.Err) or isinstance(n2, lang.Err):
            out.append(f"forge raised for {ph['what']}: {lang.short(o2, 40)} / {lang.short(n2, 40)}")
            continue
        for pos in o2:
            for pos2 in o2[pos]["content"]:
                a, b = o2[pos]["content"][pos2]["data"], n2[pos]["content"][pos2]["data"]
                for c in a:
                    u, v = np.asarray(a[c]["wfm"], dtype=float), np.asarray(b[c]["wfm"], dtype=float)
                    want = u
                    if str(c) in ph["decl"]:
                        kind, order, f = ph["decl"][str(c)]
                        want = ripasso.applyInverseRCFilter(u, ph["SR"], kind, f, order, DCgain=1)
                    scale = max(1.0, float(np.max(np.abs(want)))) if want.size else 1.0
                    if v.shape != want.shape or not np.allclose(v, want, rtol=1e-9, atol=1e-9 * scale):
                        out.append(f"{ph['what']}: position {pos} channel {c!r} is not the inverse filter "
                                   f"{ph['decl'].get(str(c))} at {ph['SR']} Sa/s of the delayed waveform")
    if out:
        return out[:4]
    for pos in off:
        for pos2 in off[pos]["content"]:
            a = off[pos]["content"][pos2]["data"]
            b = on[pos]["content"][pos2]["data"]
            for c in a:
                for key in a[c]:
                    u, v = np.asarray(a[c][key], dtype=float), np.asarray(b[c][key], dtype=float)
                    if key == "wfm" and str(c) in case["decl"]:
                        kind, order, f = case["decl"][str(c)]
                        want = ripasso.applyInverseRCFilter(u, SR, kind, f, order, DCgain=1)
                    else:
                        want = u
                    scale = max(1.0, float(np.max(np.abs(want)))) if want.size else 1.0
                    if v.shape != want.shape or not np.allclose(v, want, rtol=1e-9, atol=1e-9 * scale):
                        out.append(f"position {pos}.{pos2} channel {c!r} {key}: not the inverse filter {case['decl'].get(str(c))} "
                                   f"of the delayed waveform" if key == "wfm" else
                                   f"position {pos}.{pos2} channel {c!r} {key}: marker changed by the filter option")
    if out or case["has_sub"]:
        return out[:4]
    if not isinstance(awg, lang.Err):
        wf = awg["item"][0]
        for i, c in enumerate(chans_r):
            ampl = case["amps"][str(c)]
            for p in range(len(wf[i])):
                want = np.asarray(on[p + 1]["content"][1]["data"][c]["wfm"]) / (ampl / 2)
                if wf[i][p].shape != want.shape or not np.allclose(wf[i][p], want, rtol=1e-9, atol=1e-9):
                    out.append(f"outputForAWGFile channel {c!r} position {p + 1} is not the compensated forge output")
    if not isinstance(sx, lang.Err):
        wf = sx[5]
        for i, c in enumerate(chans_r):
            for p in range(len(wf[i])):
                dd = on[p + 1]["content"][1]["data"][c]
                for row, key in enumerate(("wfm", "m1", "m2")):
                    if not np.allclose(wf[i][p][row], dd[key], rtol=1e-9, atol=1e-12):
                        out.append(f"outputForSEQXFile channel {c!r} position {p + 1} {key} differs from forge")
    return out[:4]


def nontrivial_key(case, impl):
    decl = case["decl"]
    if not decl:
        return None
    if len(case["kinds"]) > len(decl) or len({tuple(v) for v in decl.values()}) > 1:
        return (tuple(sorted((k, tuple(v)) for k, v in decl.items())), tuple(sorted(case["delays"].items())),
                tuple(sorted(case["kinds"].items())), case["SR"])
    return None
