"""C08 - forging, output and queries are read-only and repeatable."""
import json

from .elgen import CHAN_POOL, Regs
from .seqgen import build_sequence, delay_value

ID = "C08"
ALLOWED_AXIOMS = []
RULE = ("valid sequences (1-3 positions, 1-3 channels, blueprint and raw-array channels, whole-sample delays, filter "
        "compensations, flags, optional subsequences, amplitude/offset set, some with 2400 points) and stand-alone "
        "elements and blueprints; a random interleaving of 6-16 read-only calls drawn from {forge with any flag "
        "combination, outputForAWGFile, outputForSEQXFile(+WithFlags), description, write_to_json, checkConsistency, "
        "points, duration, channels, Element.getArrays(time on/off), validateDurations, ==}, each call kind repeated at "
        "least once, with the description, settings, sequencing and a full forge observed before and after. "
        "Non-trivial: >= 3 different call kinds with a repeated forge; distinct by (call sequence, object shape).")
TRUST = ["C08 statement oracle: repeated identical calls must return identical results and the final description / "
         "forge must equal the initial ones, on the implementation alone"]

READS = ["forge", "awg", "seqx", "seqxf", "descr", "json", "check", "points", "duration", "channels", "eq", "sr"]


def generate(rng, tier):
    n = 90 if tier == "quick" else 2500
    for _ci in range(n):
        yield gen_seq_case(rng) if rng.random() < 0.7 else gen_el_case(rng)
    for _ci in range(2 if tier == "quick" else 12):
        # very long channels (> 2**16 samples): result caches / fast paths keyed on size must not make a repeated read differ
        yield gen_seq_case(rng, very_long=True) if rng.random() < 0.5 else gen_el_case(rng, very_long=True)


def gen_seq_case(rng, very_long=False):
    regs = Regs()
    SR = rng.choice([100, 1000.0, 1e4])
    long = rng.random() < 0.15 or very_long
    N = 2400 if long else rng.randint(6, 30)
    if very_long:
        N = rng.choice([70001, 90000])
    chans = rng.sample(CHAN_POOL, rng.randint(1, 3) if not very_long else rng.randint(1, 2))
    kinds = {c: rng.choice(["bp", "bp", "arr"]) for c in chans}
    s, prog, meta = build_sequence(rng, regs, SR, N, chans, rng.randint(1, 3 if not long else 2), kinds, ["ramp", "ua", "sine"],
                                   subs=(rng.random() < 0.3 and not long), waits=True, flags=True)
    dl = {c: rng.choice([0, 0, delay_value(rng, SR)]) for c in chans}
    ds = sorted({round(v * SR) for v in dl.values()})
    if any(b - a == 1 for a, b in zip(ds, ds[1:])):
        dl = {c: 0 for c in chans}
    for c in chans:
        prog += [("SSetAmp", s, c, 4), ("SSetOff", s, c, 0)]
        if dl[c]:
            prog.append(("SSetDelay", s, c, dl[c]))
        if rng.random() < 0.4:
            if rng.random() < 0.5:
                prog.append(("SSetFilter", s, c, rng.choice(["HP", "LP"]), 1, SR * 0.2, None))
            else:
                prog.append(("SSetFilter", s, c, rng.choice(["HP", "LP"]), rng.choice([1, 2]), None, 1 / (SR * 0.25)))
    cp, scratch = regs.S(), regs.S()
    prog.append(("SCopy", s, cp))
    calls = []
    kinds_seq = [rng.choice(READS) for _ in range(rng.randint(6, 16))]
    kinds_seq += rng.sample(kinds_seq, min(3, len(kinds_seq)))          # repeats
    pre = [("OSDescr", s), ("OSForge", s, True, True, False)]
    body = []
    for k in kinds_seq:
        op = {"forge": ("OSForge", s, rng.random() < 0.5, rng.random() < 0.5, rng.random() < 0.5),
              "awg": ("OSAwg", s, ("slice", None, None, None)), "seqx": ("OSSeqx", s, False), "seqxf": ("OSSeqx", s, True),
              "descr": ("OSDescr", s), "json": ("SFromJson", s, scratch), "check": ("OSCheck", s), "points": ("OSPoints", s),
              "duration": ("OSDuration", s), "channels": ("OSChannels", s), "eq": ("OSEq", s, cp), "sr": ("OSSR", s)}[k]
        body.append(op)
        calls.append(k)
    post = [("OSDescr", s), ("OSForge", s, True, True, False), ("OSEq", s, cp)]
    return {"prog": prog + pre + body + post, "kind": "sequence", "calls": calls, "n_setup": len(prog),
            "has_arr": "arr" in kinds.values(), "has_sub": "sub" in meta["positions"].values()}


def gen_el_case(rng, very_long=False):
    from .elgen import build_element
    regs = Regs()
    SR = rng.choice([100, 1000.0])
    N = rng.randint(6, 30) if not very_long else rng.choice([70001, 90000])
    chans = rng.sample(CHAN_POOL, rng.randint(1, 3))
    e, prog = build_element(rng, regs, SR, N, chans, waits=True, flags=True)
    if rng.random() < 0.25 and not very_long:
        # segment arguments given as zero-dimensional numpy arrays: mutable objects inside the argument tuples; a pulse
        # shape that works in place on its arguments would change the stored blueprint while forging
        prog = [("HArrayArgs",)] + prog
    cp = regs.E()
    prog.append(("ECopy", e, cp))
    pre = [("OEDescr", e), ("OEArrays", e, False)]
    body, calls = [], []
    for _ in range(rng.randint(6, 14)):
        k = rng.choice(["arrays_t", "arrays", "validate", "points", "duration", "sr", "channels", "descr", "eq"])
        body.append({"arrays_t": ("OEArrays", e, True), "arrays": ("OEArrays", e, False), "validate": ("OEValidate", e),
                     "points": ("OEPoints", e), "duration": ("OEDuration", e), "sr": ("OESR", e), "channels": ("OEChannels", e),
                     "descr": ("OEDescr", e), "eq": ("OEEq", e, cp)}[k])
        calls.append(k)
    post = [("OEDescr", e), ("OEArrays", e, False)]
    has_arr = any(o[0] == "EAddArray" for o in prog)
    return {"prog": prog + pre + body + post, "kind": "element", "calls": calls, "n_setup": len(prog), "has_arr": has_arr,
            "has_sub": False}


def same(a, b):
    from harness import lang
    if isinstance(a, lang.Err) or isinstance(b, lang.Err):
        return isinstance(a, lang.Err) and isinstance(b, lang.Err) and a.cls == b.cls
    return not lang.compare_plain_dict(a, b)


def oracle(case, impl):
    out = []
    prog = case["prog"]
    seen = {}
    for i, (op, r) in enumerate(zip(prog, impl)):
        if i < case["n_setup"] or op[0] in ("SFromJson",):
            continue
        key = json.dumps(op)
        if key in seen:
            j, r0 = seen[key]
            if not same(r0, r):
                out.append(f"{op[0]}{tuple(op[1:])} returned a different result at op[{i}] than at op[{j}] with only read-only calls in between "
                           f"({[o[0] for o in prog[j + 1:i]]})")
        else:
            seen[key] = (i, r)
    return out[:4]


def nontrivial_key(case, impl):
    if len(set(case["calls"])) < 3:
        return None
    return (case["kind"], tuple(case["calls"]), tuple(o[0] for o in case["prog"][:case["n_setup"]]))


def extra_checks(ctx):
    """Alias-graph correspondence: every row of alias/table.json against the real objects (id() graph, contents)."""
    import subprocess
    import sys
    import os
    from harness import alias
    root = os.path.dirname(os.path.dirname(os.path.dirname(os.path.abspath(__file__))))
    if subprocess.run([sys.executable, os.path.join(root, "alias", "gen_coq.py"), "--check"]).returncode != 0:
        ctx["report"]("coq/Model/AliasTable.v is not what alias/gen_coq.py generates from alias/table.json", {}, False)
    rounds = 2 if ctx["tier"] == "quick" else 25
    n, fails, sample = alias.check_tables(ctx["seed"] + 7, rounds)
    for f in fails[:3]:
        ctx["report"]("effect table row violated by the implementation: " + f, {"alias_failure": f, "all": fails}, True)
    return {"evaluations": n, "distinct_nontrivial": len(alias.TABLE["mutators"]) + len(alias.TABLE["readonly"]) + len(alias.TABLE["derive"]),
            "samples": [{"alias_row": sample}], "alias_rows_checked": n}
