"""Element / sequence builders shared by the element- and sequence-level properties."""
from fractions import Fraction

from .common import FUNCS, rnd_args

CHAN_POOL = [1, 2, 3, 4, "A", "chB", 7, "mk"]


class Regs:
    """Allocates blueprint / element / sequence registers for a program."""

    def __init__(self):
        self.b = self.e = self.s = 0

    def B(self):
        self.b += 1
        return self.b - 1

    def E(self):
        self.e += 1
        return self.e - 1

    def S(self):
        self.s += 1
        return self.s - 1


def aligned_segments(rng, SR, total, nseg=None, funcs=None, names=True, waits=False):
    """Split `total` samples into segments of >= 2 samples; durations are exact multiples of 1/SR."""
    nseg = nseg or rng.randint(1, 4)
    nseg = max(1, min(nseg, total // 2))
    cuts = sorted(rng.sample(range(1, total // 2), nseg - 1)) if nseg > 1 else []
    sizes = [2 * (b - a) for a, b in zip([0] + cuts, cuts + [total // 2])]
    sizes[-1] += total - sum(sizes)
    segs = []
    done = 0
    for i, n in enumerate(sizes):
        if waits and i >= 1 and rng.random() < 0.3:
            t = float(Fraction(done + n) / Fraction(SR))
            if Fraction(t) * Fraction(SR) == done + n:
                segs.append(("waituntil", [t], None, None, n))
                done += n
                continue
        f = rng.choice(funcs or list(FUNCS))
        d = n / SR
        if Fraction(d) * Fraction(SR) != n:
            d = float(Fraction(n) / Fraction(SR))
        segs.append((f, rnd_args(rng, f, float(d)), d, rng.choice([None, "a", "b"]) if names else None, n))
        done += n
    return segs


def build_bp(rng, regs, SR, segs, markers=False):
    r = regs.B()
    ops = [("BNew", r)]
    for f, a, d, nm, _n in segs:
        ops.append(("BInsert", r, -1, f, list(a), d, nm))
    if SR is not None:
        ops.append(("BSetSR", r, SR))
    if markers and rng.random() < 0.6:
        N = sum(s[4] for s in segs)
        ops.append(("BSetMarker", r, rng.choice([1, 2]), [(rng.randint(0, max(0, N - 3)) / SR, rng.randint(1, 6) / SR)]))
    return r, ops


def const_rle(rng, N, levels=(0.0, 0.5, -0.25, 0.125, 1.0)):
    """A piecewise-constant raw array of N samples as a run-length list."""
    out = []
    left = N
    while left > 0:
        c = left if rng.random() < 0.3 else rng.randint(1, left)
        out.append((rng.choice(levels), c))
        left -= c
    return out


def marker_rle(rng, N):
    out = []
    left = N
    bit = rng.choice([0, 1])
    while left > 0:
        c = left if rng.random() < 0.4 else rng.randint(1, left)
        out.append((float(bit), c))
        bit = 1 - bit
        left -= c
    return out
