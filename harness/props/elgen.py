"""Element / sequence builders shared by the element- and sequence-level properties."""
from fractions import Fraction

from .common import FUNCS, rnd_args

CHAN_POOL = [1, 2, 3, 4, "A", "chB", 7, "mk"]


class Regs:
    """Allocates blueprint / element / sequence registers for a program."""

    def __init__(self):
        self.b = self.e = self.s = 0

    def B(self):
        self.b += 1
        return self.b - 1

    def E(self):
        self.e += 1
        return self.e - 1

    def S(self):
        self.s += 1
        return self.s - 1


def aligned_segments(rng, SR, total, nseg=None, funcs=None, names=True, waits=False):
    """Split `total` samples into segments of >= 2 samples; durations are exact multiples of 1/SR."""
    nseg = nseg or rng.randint(1, 4)
    nseg = max(1, min(nseg, total // 2))
    cuts = sorted(rng.sample(range(1, total // 2), nseg - 1)) if nseg > 1 else []
    sizes = [2 * (b - a) for a, b in zip([0] + cuts, cuts + [total // 2])]
    sizes[-1] += total - sum(sizes)
    segs = []
    done = 0
    for i, n in enumerate(sizes):
        if waits and i >= 1 and rng.random() < (0.3 if waits is True else waits):
            t = float(Fraction(done + n) / Fraction(SR))
            if abs(Fraction(t) * Fraction(SR) - (done + n)) < Fraction(1, 10**6):
                segs.append(("waituntil", [t], None, None, n))
                done += n
                continue
        f = rng.choice(funcs or list(FUNCS))
        d = n / SR
        if Fraction(d) * Fraction(SR) != n:
            d = float(Fraction(n) / Fraction(SR))
        segs.append((f, rnd_args(rng, f, float(d)), d, rng.choice([None, "a", "b"]) if names else None, n))
        done += n
    return segs


def build_bp(rng, regs, SR, segs, markers=False):
    r = regs.B()
    ops = [("BNew", r)]
    for f, a, d, nm, _n in segs:
        ops.append(("BInsert", r, -1, f, list(a), d, nm))
    if SR is not None:
        ops.append(("BSetSR", r, SR))
    if markers and rng.random() < 0.6:
        N = sum(s[4] for s in segs)
        ops.append(("BSetMarker", r, rng.choice([1, 2]), [(rng.randint(0, max(0, N - 3)) / SR, rng.randint(1, 6) / SR)]))
    return r, ops


def const_rle(rng, N, levels=(0.0, 0.5, -0.25, 0.125, 1.0)):
    """A piecewise-constant raw array of N samples as a run-length list."""
    out = []
    left = N
    while left > 0:
        c = left if rng.random() < 0.3 else rng.randint(1, left)
        out.append((rng.choice(levels), c))
        left -= c
    return out


def marker_rle(rng, N):
    out = []
    left = N
    bit = rng.choice([0, 1])
    while left > 0:
        c = left if rng.random() < 0.4 else rng.randint(1, left)
        out.append((float(bit), c))
        bit = 1 - bit
        left -= c
    return out


def build_element(rng, regs, SR, N, chans, kinds=None, funcs=None, waits=False, markers=True, flags=False,
                  arr_markers=True, levels=None):
    """An element with the given channels (in that insertion order); returns (register, ops)."""
    e = regs.E()
    ops = [("ENew", e)]
    for c in chans:
        kind = (kinds or {}).get(c) or rng.choice(["bp", "bp", "arr"])
        if kind == "bp":
            segs = aligned_segments(rng, SR, N, funcs=funcs, waits=waits)
            r, o = build_bp(rng, regs, SR, segs, markers=markers)
            ops += o + [("EAddBp", e, c, r)]
            if flags and rng.random() < 0.5:
                ops.append(("EAddFlags", e, c, [rng.choice([0, 1, 2, 3, 4, "", "H", "L", "T", "P"]) for _ in range(4)]))
        else:
            ms = [("m1", marker_rle(rng, N)), ("m2", marker_rle(rng, N))] if arr_markers else []
            ops.append(("EAddArray", e, c, const_rle(rng, N, levels or (0.0, 0.25, -0.25, 0.125)), SR, ms))
    return e, ops


SAFE_FUNCS = ["ramp", "ua"]          # bounded within [-0.5, 0.5] with safe_args


def safe_args(rng, f, dur=None):
    if f == "ramp":
        return [rng.choice([0, 0.25, -0.25, rng.uniform(-0.4, 0.4)]), rng.choice([0, 0.125, rng.uniform(-0.4, 0.4)])]
    if f == "ua":
        return [rng.choice([0.25, -0.125, 0.375])]
    if f == "sine":
        return [rng.choice([1, 2]) / dur, rng.uniform(0.05, 0.3), rng.choice([0, 0.1]), rng.choice([0, 0.5])]
    if f == "gaussian":
        return [rng.uniform(0.05, 0.35), dur * rng.uniform(0.05, 0.3), 0, rng.choice([0, 0.05])]
    raise KeyError(f)


def safe_element(rng, regs, SR, N, chans, kinds=None, funcs=SAFE_FUNCS, waits=False, flags=False, nseg=None):
    """Like build_element but every voltage stays inside [-0.5, 0.5] (for the output back ends)."""
    e = regs.E()
    ops = [("ENew", e)]
    for c in chans:
        kind = (kinds or {}).get(c) or rng.choice(["bp", "bp", "arr"])
        if kind == "bp":
            segs = aligned_segments(rng, SR, N, nseg=nseg, funcs=funcs, waits=waits)
            segs = [(f, (a if f == "waituntil" else safe_args(rng, f, float(d))), d, nm, n) for f, a, d, nm, n in segs]
            r, o = build_bp(rng, regs, SR, segs, markers=True)
            ops += o + [("EAddBp", e, c, r)]
            if flags and rng.random() < 0.5:
                ops.append(("EAddFlags", e, c, [rng.choice([0, 1, 2, 3, 4, "", "H", "L", "T", "P"]) for _ in range(4)]))
        else:
            ops.append(("EAddArray", e, c, const_rle(rng, N, (0.0, 0.25, -0.25, 0.125)), SR,
                        [("m1", marker_rle(rng, N)), ("m2", marker_rle(rng, N))]))
    return e, ops
