"""C04 - waituntil pads with zeros so that the next segment starts at the stated time."""
from fractions import Fraction

import numpy as np

from .bpgen import insertion_history

ID = "C04"
ALLOWED_AXIOMS = []
RULE = ("blueprints with 1-3 waituntil segments at positions >= 1, sample-aligned preceding durations, wait targets "
        "leaving >= 2 samples of padding (aligned and off-grid, never near a tie), every segment after a wait is a "
        "constant user function with a unique level so that its first sample can be located; then 0-5 changeDuration "
        "edits of preceding segments, both fitting and overrunning the wait target; forge, duration and points are "
        "observed after every edit. Non-trivial: >= 1 wait and >= 1 edit; distinct by (segment counts, wait targets, "
        "edits).")
TRUST = ["C04 statement oracle: locates the first sample of the segment after each wait in the implementation's "
         "waveform and compares with round(t*SR); checks zero padding, duration and points"]


def many_segments_case(rng):
    """init | waituntil t1 | 260-320 equal pulses | waituntil t2 | readout, then every pulse is lengthened at once
    (replaceeverywhere) so that the second wait is overrun only because the FIRST wait already moved the clock:
    t1 + pulses > t2 although init + pulses <= t2.  Long blueprints take different code paths in size-aware rewrites."""
    # integer-valued times: the model's exact rationals are not normalised, and hundreds of binary64 fractions with
    # 50-80 bit denominators would make its running sums astronomically long
    SR = rng.choice([1, 2, 4])
    n_p = rng.randint(260, 320)
    init, p0, p1 = rng.randint(20, 100), 10, 14
    t1 = 1000
    t2 = t1 + n_p * p0 + rng.randint(50, 400)            # fits before the edit
    assert t1 + n_p * p1 > t2 and init + n_p * p1 <= t2 + (t1 - init)
    q = lambda k: float(Fraction(k) / Fraction(SR))      # noqa: E731
    prog = [("BNew", 0), ("BInsert", 0, -1, "ua", [2.5], q(init), "init"), ("BInsert", 0, -1, "waituntil", [q(t1)], None, None)]
    prog += [("BInsert", 0, -1, "ua", [10.5 + j], q(p0), "pulse") for j in range(n_p)]          # distinct levels: the oracle finds segments by level
    prog += [("BInsert", 0, -1, "waituntil", [q(t2)], None, None), ("BInsert", 0, -1, "ua", [3.5], q(30), "readout"),
             ("BSetSR", 0, SR), ("OBDescr", 0), ("OBForge", 0), ("OBDuration", 0), ("OBPoints", 0),
             ("BChangeDur", 0, "pulse", q(p1), True), ("OBDescr", 0), ("OBForge", 0), ("OBDuration", 0), ("OBPoints", 0)]
    return {"prog": prog, "kind": "many-segments", "SR": SR, "nedits": 1}


def generate(rng, tier):
    yield from small_cases(rng, tier)
    for _ in range(2 if tier == "quick" else 10):          # last: the in-Coq cross-check takes the first programs of a run
        yield many_segments_case(rng)


def small_cases(rng, tier):
    n = 140 if tier == "quick" else 4000
    for _ci in range(n):
        SR = rng.choice([1, 12.5, 100, 1000.0, 1e4, 2.4e9, 50e9, 25])
        nwaits = rng.randint(1, 3)
        segs = []          # (fn, args, dur, name, n)
        elapsed = Fraction(0)
        level = 1
        meta = []          # (index of wait, target t)
        for w in range(nwaits):
            for _ in range(rng.randint(1, 3)):
                k = rng.randint(2, 25)
                d = float(Fraction(k) / Fraction(SR))
                if Fraction(d) * Fraction(SR) != k:
                    d = k / SR
                segs.append(("ua", [level + 0.5], d, f"pre{chr(97 + len(segs))}", k))
                level += 1
                elapsed += Fraction(d)
            pad = rng.randint(2, 20)
            g = rng.choice([0, 0, rng.uniform(-0.4, 0.4)])
            # total elapsed is a whole number of samples (in exact arithmetic up to float dust)
            t = float(elapsed + Fraction(pad) / Fraction(SR)) + g / SR
            x = Fraction(t) * Fraction(SR)
            if abs(x - round(x)) > Fraction(41, 100):
                t = float(elapsed + Fraction(pad) / Fraction(SR))
            segs.append(("waituntil", [t], None, None, None))
            meta.append((len(segs) - 1, t))
            elapsed = Fraction(t)
            k = rng.randint(2, 10)
            segs.append(("ua", [level + 0.25], k / SR, f"post{chr(97 + w)}", k))
            level += 1
            elapsed += Fraction(k / SR)
        prog = [("BNew", 0)] + insertion_history(rng, 0, segs) + [("BSetSR", 0, SR), ("OBDescr", 0), ("OBForge", 0),
                                                                   ("OBDuration", 0), ("OBPoints", 0)]
        nedits = rng.randint(0, 5)
        pre_names = [s[3] for s in segs if s[3] and s[3].startswith("pre")]
        durs = {s[3]: Fraction(s[2]) for s in segs if s[2] is not None}

        def dusty(durs):
            """Some wait target coincides with the elapsed time up to float dust: whether that counts as an overrun is
            decided by binary64 rounding of the implementation's running sum, not by the property (float gap, DESIGN 9.5)."""
            el = Fraction(0)
            for fn, args, _d, nm, _k in segs:
                if fn == "waituntil":
                    if abs(Fraction(args[0]) - el) * Fraction(SR) < Fraction(1, 1000):
                        return True
                    el = max(el, Fraction(args[0]))
                else:
                    el += durs[nm]
            return False

        for _ in range(nedits):
            for _try in range(8):
                t = rng.choice(pre_names)
                k = rng.choice([2, 3, 5, 8, 13, 40, 90])
                if not dusty(dict(durs, **{t: Fraction(k / SR)})):
                    break
            else:
                continue
            durs[t] = Fraction(k / SR)
            prog += [("BChangeDur", 0, t, k / SR, False), ("OBDescr", 0), ("OBForge", 0), ("OBDuration", 0), ("OBPoints", 0)]
        yield {"prog": prog, "kind": "waits", "SR": SR, "nedits": nedits}


def oracle(case, impl):
    from harness import lang
    out = []
    SR = Fraction(case["SR"])
    desc = None
    prog = case["prog"]
    for i, (op, r) in enumerate(zip(prog, impl)):
        if op[0] == "OBDescr" and isinstance(r, dict):
            desc = r
        if op[0] != "OBForge" or desc is None:
            continue
        dur_r, pts_r = impl[i + 1], impl[i + 2]
        segs = [desc[k] for k in lang.segment_keys(desc)]
        # exact bookkeeping from the description: aligned preceding durations, wait targets
        elapsed = Fraction(0)
        overrun = False
        near_tie = False
        expect_start = {}          # index of the segment after a wait -> sample index
        aligned = True
        for k, s in enumerate(segs):
            if s["function"] == "waituntil":
                t = Fraction(s["arguments"]["waittime"][0])
                pad = (t - elapsed) * SR
                if abs(pad) < Fraction(1, 10**6):
                    near_tie = True          # target == elapsed up to float dust: overrun or not is a rounding accident
                    break
                if t < elapsed:
                    overrun = True
                    break
                if pad < Fraction(3, 2) or abs(pad - round(pad)) > Fraction(45, 100):
                    near_tie = True          # < 2 samples of padding or a rounding tie: outside the quantifier
                if aligned and k + 1 < len(segs):
                    expect_start[k + 1] = round(t * SR)
                elapsed = t
                # after a wait whose target is off-grid the following boundaries are no longer whole samples
                if (t * SR).denominator != 1:
                    aligned = False
            else:
                d = Fraction(s["durations"])
                if (d * SR).denominator != 1 and abs(d * SR - round(d * SR)) > Fraction(1, 1000):
                    aligned = False
                elapsed += d
        if overrun:
            for nm, v in (("forge", r), ("duration", dur_r), ("points", pts_r)):
                if not isinstance(v, lang.Err):
                    out.append(f"preceding segments overrun the wait target but {nm} did not raise")
            continue
        if near_tie:
            continue
        if isinstance(r, lang.Err):
            out.append(f"forge raised {r.cls} although every wait leaves >= 2 samples of padding")
            continue
        wfm = np.asarray(r["wfm"])
        ns = [int(round(float(d) * float(SR))) for d in r["newdurations"]]
        starts = np.cumsum([0] + ns)
        for k, want in expect_start.items():
            lvl = segs[k]["arguments"].get("x")
            idx = np.flatnonzero(wfm == lvl)
            if len(idx) == 0 or idx[0] != want:
                out.append(f"segment after waituntil starts at sample {idx[0] if len(idx) else None}, expected round(t*SR) = {want}")
            wpos = k - 1
            pad = wfm[starts[wpos]:starts[wpos + 1]]
            if len(pad) < 2 or np.any(pad != 0):
                out.append("waituntil padding is not all zeros")
        if not isinstance(dur_r, lang.Err) and abs(Fraction(dur_r) - elapsed) > abs(elapsed) * Fraction(1, 10**9):
            out.append(f"duration {dur_r} does not include the filled time (expected {float(elapsed)})")
        if not isinstance(pts_r, lang.Err):
            if pts_r != round(elapsed * SR) and abs(elapsed * SR - round(elapsed * SR)) < Fraction(2, 5):
                out.append(f"points {pts_r} != round(duration*SR) = {round(elapsed * SR)}")
            if aligned and pts_r != len(wfm):
                out.append(f"points {pts_r} != forged length {len(wfm)}")
    return out[:4]


def nontrivial_key(case, impl):
    if case["nedits"] < 1:
        return None
    prog = case["prog"]
    return (tuple((o[3], tuple(o[4]), o[5]) for o in prog if o[0] == "BInsert"),
            tuple((o[2], o[3]) for o in prog if o[0] == "BChangeDur"))
