"""C13 - filter compensation inverts the filter it is declared for (tie T)."""
from .. import numeric

ID = "C13"
T_GEN = ["RipassoGen.v"]
T_FILES = ["Generated/RipassoGen", "Numeric/RipassoFacts", "Numeric/DFT", "Props/C13", "Props/C13d"]
PROPS_FILES = ["C13", "C13d"]
ALLOWED_AXIOMS = ["ClassicalDedekindReals.sig_forall_dec", "ClassicalDedekindReals.sig_not_dec",
                  "FunctionalExtensionality.functional_extensionality_dep"]
RULE = ("tie T: cancellation / additivity theorems of coq/Numeric/RipassoFacts.v re-checked against the transfer "
        "functions regenerated from src/broadbean/ripasso.py on this run; numeric oracle: both composition orders on "
        "unit impulses, a Nyquist-content signal, a square wave and a random signal, odd and even N in 2..40 (thorough: "
        "to 300 and random lengths to 2048), both kinds, orders 1..3, cut-offs 1e-4*SR..3*SR; HP with DC gain 0 differs "
        "by a constant only; orders add; order -n is the compensation; rejected DC gains and kinds; custom transfer "
        "function undone by invert=True. Non-trivial: N >= 3; distinct by (N, SR, kind, f_cut, order).")
TRUST = ["as C12; the quantitative clause 'within floating-point error scaled by the condition number' is measured "
         "(tolerance 1e-9 * cond^2), not proved"]


def generate(rng, tier):
    return []


def run(ctx, seed_off, tier, limit=3):
    import random
    rng = random.Random(ctx["seed"] + seed_off)
    lengths = list(range(2, 41)) if tier == "quick" else list(range(2, 301, 1)) + [rng.randint(301, 2048) for _ in range(5)]
    found, keys, n = [], set(), 0
    for N in lengths:
        if tier != "quick" and N > 64 and rng.random() < 0.7:
            continue
        SR = rng.choice([1.0, 100.0, 1e4, 2.4e9])
        kind, fc, order = rng.choice(["HP", "LP"]), SR * rng.choice([1e-4, 1e-3, 0.01, 0.1, 0.5, 1, 3]), rng.choice([1, 2, 3])
        n += 9
        if N >= 3:
            keys.add((N, SR, kind, fc, order))
        try:
            f = numeric.c13_oracle(N, SR, kind, fc, order, rng)
        except Exception as e:  # noqa: BLE001
            f = [f"ripasso raised {type(e).__name__} on a valid call (N={N}, SR={SR}): {str(e)[:120]}"]
        if f:
            found.append((f[0], {"numeric_case": {"N": N, "SR": SR, "kind": kind, "f_cut": fc, "order": order},
                                 "oracle_failures": f}))
            if len(found) >= limit:
                break
    return found, n, keys


def extra_checks(ctx):
    found, n, keys = run(ctx, 21, ctx["tier"])
    for sig, payload in found:
        ctx["report"](sig, payload, True)
    return {"evaluations": n, "distinct_nontrivial": len(keys),
            "samples": [{"config": list(sorted(keys))[0] if keys else None,
                         "signals": "unit impulses, (-1)^k, square wave, random"}]}


def search_failing_input(ctx):
    found, _n, _k = run(ctx, 22, "quick")
    return found


def replay(case):
    """Re-run the numeric statement oracle on the input stored in a replay file."""
    import random
    return numeric.c13_oracle(case['N'], case['SR'], case['kind'], case['f_cut'], case['order'], random.Random(0))
