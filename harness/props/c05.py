"""C05 - segment names stay unique; name-addressed edits touch only their target."""
import copy

import numpy as np

from .common import BASES, FUNCS, PARAMS, basename, uniquify, rnd_args

ID = "C05"
ALLOWED_AXIOMS = []
PROPS_FILES = ["C05", "Reach", "ReachAll", "Atomic"]     # Reach: invariants of every store reachable by API programs
RULE = ("thorough tier additionally enumerates EXHAUSTIVELY all 7381 histories of length <= 4 over a fixed 9-op alphabet "
        "(3 inserts with clashing names, 2 removes, changeArg, changeDuration, setSegmentMarker, self-concatenation); "
        "random edit histories (length 1-25, thorough up to 40) over {insertSegment at any position incl. -1 with "
        "given/omitted/empty name, removeSegment, changeArg by name/position (+replaceeverywhere), changeDuration, "
        "set/removeSegmentMarker, copy, +, and the Element-delegated edits}, names from overlapping bases (bases "
        "containing digits, a function whose __name__ ends in a digit), functions of 1, 2 and 4 user arguments and "
        "waituntil; a malformed stream (unknown names/arguments, names ending in a digit, pos < -1, non-positive / "
        "sub-sample / non-numeric durations); the description is observed after every op. A case is non-trivial "
        "when its history holds at least two segments sharing a base name at some point and at least one accepted "
        "and one rejected edit; distinct = distinct (op-name sequence, final name list).")
TRUST = ["C05 statement oracle (harness/props/c05.py): checks the k-th-occurrence naming rule and the frame "
         "condition on the implementation's own descriptions, independent of the model"]


ALPHABET = [
    ("BInsert", 0, 0, "ramp", [0, 1], 1, "a"), ("BInsert", 0, -1, "sine", [1, 1, 0, 0], 1, None),
    ("BInsert", 0, 1, "ua", [1], 1, "a"), ("BRemove", 0, "a"), ("BRemove", 0, "a2"),
    ("BChangeArg", 0, "a", 0, 7, False), ("BChangeDur", 0, "a2", 0.5, False), ("BSetSegMarker", 0, "a", (0, 0.1), 1),
    ("BAdd", 0, 0, 0),
]


def exhaustive(maxlen):
    """Every history of length <= maxlen over the 9-op alphabet, the description observed after every op."""
    import itertools
    for n in range(0, maxlen + 1):
        for seq in itertools.product(ALPHABET, repeat=n):
            prog = [("BNew", 0), ("OBDescr", 0)]
            for op in seq:
                prog += [op, ("OBDescr", 0)]
            yield {"prog": prog, "kind": "exhaustive"}


def generate(rng, tier):
    n_cases = 220 if tier == "quick" else 4000
    maxlen = 25 if tier == "quick" else 40
    for ci in range(n_cases):
        yield gen_case(rng, rng.randint(1, maxlen), ci)
    if tier == "thorough":
        yield from exhaustive(4)


def gen_case(rng, length, ci):
    prog = [("BNew", 0), ("BNew", 1)]
    names = {0: [], 1: [], 2: []}      # the generator's own mirror, only used to aim edits
    funcs = {0: [], 1: [], 2: []}
    live = {0, 1}
    sr_set = {}
    if rng.random() < 0.5:
        sr = rng.choice([100, 1000.0, 1e9, 12.5])
        prog.append(("BSetSR", 0, sr))
        sr_set[0] = sr
    use_elem = rng.random() < 0.25
    # a crowded base: ten and more segments sharing one base name, so that two-digit suffixes get renumbered
    crowd = rng.choice(BASES) if rng.random() < 0.15 else None
    if crowd:
        length = max(length, 28)
    for _ in range(length):
        r = rng.choice(sorted(live))
        k = rng.random()
        if crowd and rng.random() < 0.5:
            k = 0.0
        nm = names[r]
        if k < 0.34 or not nm:
            f = rng.choice(list(FUNCS) + ["waituntil"])
            pos = rng.choice([-1, -1, 0, 1, 2, len(nm), len(nm) + 3, rng.randint(0, len(nm) + 1)])
            name = rng.choice([None, None, "", rng.choice(BASES), rng.choice(BASES), rng.choice(BASES)])
            if crowd and rng.random() < 0.85:
                name = crowd
            if rng.random() < 0.06:
                name = rng.choice(BASES) + rng.choice("0123456789")      # rejected: ends in a digit
            if rng.random() < 0.04:
                pos = rng.choice([-2, -5])                               # rejected
            if f == "waituntil":
                args, dur = [rng.choice([1, 2.5, 10])], None
            else:
                args, dur = rnd_args(rng, f), rng.choice([0.1, 1, 0.25, 3])
            prog.append(("BInsert", r, pos, f, args, dur, name))
            if pos >= -1 and not (name and name[-1].isdigit()):
                eff = name if name else f
                p = len(nm) if pos == -1 else min(pos, len(nm))
                nm.insert(p, eff)
                funcs[r].insert(p, f)
                names[r] = uniquify(nm)
        elif k < 0.44:
            t = rng.choice(nm + ["nosuch"])
            prog.append(("BRemove", r, t))
            if t in nm:
                i = nm.index(t)
                del nm[i]
                del funcs[r][i]
                names[r] = uniquify(nm)
        elif k < 0.62:
            t = rng.choice(nm + ["nosuch", basename(rng.choice(nm))])
            f = funcs[r][nm.index(t)] if t in nm else "ramp"
            ps = PARAMS.get(f, ["x"])
            arg = rng.choice(ps + list(range(len(ps))) + ["bogus", len(ps), -1, "SR"])
            prog.append(("BChangeArg", r, t, arg, rng.choice([7, -0.5, 3.25]), rng.random() < 0.3))
        elif k < 0.76:
            t = rng.choice(nm + ["nosuch"])
            d = rng.choice([0.2, 2, 0.5, 0.3, 0.3, 0, -1, None, "long", 1e-12])
            prog.append(("BChangeDur", r, t, d, rng.random() < 0.3))
        elif k < 0.86:
            t = rng.choice(nm + ["nosuch"])
            if rng.random() < 0.7:
                prog.append(("BSetSegMarker", r, t, (rng.choice([0, 0.01, -0.02]), rng.choice([0.05, 0, 0.1])),
                             rng.choice([1, 2, 2, 1, 3])))
            else:
                prog.append(("BRemoveSegMarker", r, t, rng.choice([1, 2, 0])))
        elif k < 0.93:
            dst = rng.choice([1, 2])
            prog.append(("BCopy", r, dst))
            names[dst], funcs[dst] = list(names[r]), list(funcs[r])
            live.add(dst)
        else:
            other = rng.choice(sorted(live))
            dst = rng.choice([0, 2])
            prog.append(("BAdd", r, other, dst))
            n2 = uniquify([basename(x) for x in names[r] + names[other]])
            f2 = funcs[r] + funcs[other]
            names[dst], funcs[dst] = n2, f2
            live.add(dst)
        for q in sorted(live):
            prog.append(("OBDescr", q))
    if use_elem and names[0]:
        # the same edits issued through an Element
        prog += [("ENew", 0), ("EAddBp", 0, 1, 0), ("OEDescr", 0)]
        t = rng.choice(names[0])
        f = funcs[0][names[0].index(t)]
        if f != "waituntil":
            prog.append(("EChangeArg", 0, 1, t, rng.choice(PARAMS[f]), 9.5, False))
            prog.append(("OEDescr", 0))
        prog.append(("EChangeDur", 0, 1, t, 0.75, False))
        prog.append(("OEDescr", 0))
        prog.append(("EChangeDur", 0, 2, t, 0.75, False))
        prog.append(("EChangeArg", 0, 1, "nosuch", 0, 1, False))
        prog.append(("OEDescr", 0))
    return {"prog": prog, "kind": "crowded" if crowd else "history"}


# ---------------------------------------------------------------- statement oracle (implementation only)
def segs_of(desc):
    from harness import lang
    keys = lang.segment_keys(desc)
    return [desc[k] for k in keys]


def check_names(desc):
    out = []
    segs = segs_of(desc)
    names = [s["name"] for s in segs]
    if len(set(names)) != len(names):
        out.append(f"segment names not pairwise distinct: {names}")
    seen = {}
    for n in names:
        b = basename(n)
        seen[b] = seen.get(b, 0) + 1
        want = b if seen[b] == 1 else f"{b}{seen[b]}"
        if n != want:
            out.append(f"k-th occurrence naming broken: got {names}")
            break
    nseg = len(segs)
    for key in ("marker1_rel", "marker2_rel"):
        if len(desc[key]) != nseg:
            out.append(f"{key} has {len(desc[key])} entries for {nseg} segments")
    for s in segs:
        if set(s) != {"name", "function", "durations", "arguments"}:
            out.append(f"segment entry keys {sorted(s)}")
    return out


def norm(d):
    return copy.deepcopy(d)


def oracle(case, impl):
    from harness import lang
    fails = []
    prog = case["prog"]
    last = {}                 # register -> last observed description
    pending = None            # (op index, op) awaiting the next description of its register
    for i, (op, res) in enumerate(zip(prog, impl)):
        name = op[0]
        if name == "OBDescr":
            r = op[1]
            if isinstance(res, lang.Err):
                fails.append(f"op[{i}] description raised {res.cls}")
                continue
            fails += [f"op[{i}] {m}" for m in check_names(res)]
            if pending and pending[1][1] == r and r in last:
                fails += frame_check(pending[0], pending[1], pending[2], last[r], res)
                pending = None
            last[r] = norm(res)
        elif name in ("BChangeArg", "BChangeDur", "BSetSegMarker", "BRemoveSegMarker", "BRemove", "BInsert"):
            pending = (i, op, res)
        elif name in ("BCopy", "BAdd", "BNew", "BSetSR"):
            pending = None
    return fails[:5]


def frame_check(i, op, res, before, after):
    """Only the addressed attribute of the addressed segment(s) may differ; a rejected single edit changes nothing."""
    from harness import lang
    out = []
    name = op[0]
    b, a = segs_of(before), segs_of(after)
    rejected = isinstance(res, lang.Err)
    everywhere = name in ("BChangeArg", "BChangeDur") and op[-1]
    if rejected and not everywhere:
        if before != after:
            out.append(f"op[{i}] {name} was rejected ({res.cls}) but changed the blueprint")
        return out
    if rejected:
        return out
    if name in ("BInsert", "BRemove"):
        # every other segment keeps its function, arguments, duration and segment-bound markers
        def recs(d):
            sg = segs_of(d)
            return [(x["function"], repr(x["durations"]), repr(x["arguments"]), repr(tuple(d["marker1_rel"][k])), repr(tuple(d["marker2_rel"][k])))
                    for k, x in enumerate(sg) if k < len(d["marker1_rel"]) and k < len(d["marker2_rel"])]
        rb, ra = recs(before), recs(after)
        big, small = (ra, rb) if name == "BInsert" else (rb, ra)
        if len(big) != len(small) + 1:
            return [f"op[{i}] {name} changed the number of segments from {len(rb)} to {len(ra)}"]
        if not any(big[:k] + big[k + 1:] == small for k in range(len(big))):
            out.append(f"op[{i}] {name} changed a segment other than the one it {'adds' if name == 'BInsert' else 'removes'} "
                       f"(function / arguments / duration / segment-bound markers of the remaining segments must stay attached)")
        for key in ("marker1_abs", "marker2_abs"):
            if before[key] != after[key]:
                out.append(f"op[{i}] {name} changed {key}")
        return out
    if len(a) != len(b):
        return [f"op[{i}] {name} changed the number of segments"]
    target = op[2]
    base = basename(target)
    hit = [k for k, s in enumerate(b) if (basename(s["name"]) == base if everywhere else s["name"] == target)]
    if not hit:
        out.append(f"op[{i}] {name} accepted an unknown segment {target!r}")
    for k, (sb, sa) in enumerate(zip(b, a)):
        if k not in hit:
            if sb != sa:
                out.append(f"op[{i}] {name}({target!r}) changed segment {k} ({sb['name']!r}), which it does not address")
            continue
        for field in ("name", "function"):
            if sb[field] != sa[field]:
                out.append(f"op[{i}] {name} changed {field} of segment {k}")
        if name == "BChangeArg":
            if sb["durations"] != sa["durations"]:
                out.append(f"op[{i}] changeArg changed a duration")
            arg, val = op[3], op[4]
            keys = list(sb["arguments"])
            if list(sa["arguments"]) != keys:
                out.append(f"op[{i}] changeArg({target!r},{arg!r}) changed the set of arguments of the segment: {list(sa['arguments'])}")
            if isinstance(arg, str) and arg not in keys and sb["function"] != "waituntil":
                out.append(f"op[{i}] changeArg accepted {arg!r}, which is not a user argument of {sb['function']} ({keys})")
            akey = arg if isinstance(arg, str) else (keys[arg] if 0 <= arg < len(keys) else None)
            for kk in keys:
                want = val if kk == akey else sb["arguments"][kk]
                if sa["arguments"].get(kk) != want:
                    out.append(f"op[{i}] changeArg({target!r},{arg!r},{val}) left argument {kk}={sa['arguments'].get(kk)!r}, expected {want!r}")
        if name == "BChangeDur":
            if sb["arguments"] != sa["arguments"]:
                out.append(f"op[{i}] changeDuration changed arguments")
            if sa["durations"] != op[3]:
                out.append(f"op[{i}] changeDuration({target!r},{op[3]}) left duration {sa['durations']!r}")
    mk = {"BSetSegMarker": op[4] if name == "BSetSegMarker" else None,
          "BRemoveSegMarker": op[3] if name == "BRemoveSegMarker" else None}.get(name)
    for key in ("marker1_abs", "marker2_abs"):
        if before[key] != after[key]:
            out.append(f"op[{i}] {name} changed {key}")
    for mid, key in ((1, "marker1_rel"), (2, "marker2_rel")):
        for k, (mb, ma) in enumerate(zip(before[key], after[key])):
            if name in ("BSetSegMarker", "BRemoveSegMarker") and mk == mid and k in hit:
                want = tuple(op[3]) if name == "BSetSegMarker" else (0, 0)
                if tuple(ma) != tuple(want):
                    out.append(f"op[{i}] {name} left {key}[{k}]={ma!r}, expected {want!r}")
            elif tuple(mb) != tuple(ma):
                out.append(f"op[{i}] {name} changed {key}[{k}]")
    return out


def nontrivial_key(case, impl):
    from harness import lang
    prog = case["prog"]
    shared = False
    acc = rej = 0
    final = None
    for op, res in zip(prog, impl):
        if op[0] == "OBDescr" and isinstance(res, dict):
            ns = [s["name"] for s in segs_of(res)]
            if len({basename(n) for n in ns}) < len(ns):
                shared = True
            final = tuple(ns)
        elif op[0].startswith("B") and op[0] not in ("BNew",):
            if isinstance(res, lang.Err):
                rej += 1
            else:
                acc += 1
    if shared and acc and rej:
        return (tuple(o[0] for o in prog), final)
    return None


# ---------------------------------------------------------------- same-named function families (implementation only)
def _family():
    """Pulse functions of 1, 2 and 4 user arguments produced by ONE factory: distinct functions that share their
    __name__ / __qualname__ (what a user gets from a shape factory or from lambdas defined in one scope).  Each writes
    its arguments into its first samples, so a forge shows which argument an edit reached."""
    def make(params):
        src = f"def shape({', '.join(params)}, SR, npts):\n    out = np.zeros(int(npts)); out[:{len(params)}] = [{', '.join(params)}]; return out\n"
        ns = {"np": np, "__name__": "user_shapes"}          # functions of one (user) module, as redefinitions in a notebook are
        exec(src, ns)          # noqa: S102 - fixed text above
        return ns["shape"]
    return {1: (make(["level"]), ["level"]), 2: (make(["start", "stop"]), ["start", "stop"]),
            3: (make(["stop", "start"]), ["stop", "start"]), 4: (make(["p", "q", "r", "s"]), ["p", "q", "r", "s"])}


def extra_checks(ctx):
    """changeArg by name / position on blueprints whose segments use same-named functions with different parameter
    lists: exactly the addressed argument of exactly the addressed segment changes (checked on the forged samples and
    on the description); an argument name the function does not have is rejected and changes nothing."""
    import random
    from broadbean.blueprint import BluePrint
    rng = random.Random(ctx["seed"] + 5)
    fam = _family()
    n_hist = 25 if ctx["tier"] == "quick" else 600
    evals, fails = 0, []
    for h in range(n_hist):
        bp = BluePrint()
        bp.setSR(100)
        segs = []                  # mirror: [name, params, values]
        for k in range(rng.randint(2, 5)):
            key = rng.choice(sorted(fam))
            f, params = fam[key]
            vals = [float(rng.randint(1, 9)) for _ in params]
            name = f"s{chr(97 + k)}"
            bp.insertSegment(-1, f, tuple(vals), name=name, dur=0.08)
            segs.append([name, params, vals])
        hist = []
        for _step in range(rng.randint(2, 8)):
            tgt = rng.randrange(len(segs))
            name, params, vals = segs[tgt]
            others = sorted({p for _n, ps, _v in segs for p in ps} - set(params))
            if rng.random() < 0.2 and others:
                arg, ok = rng.choice(others), False        # a name only the sibling functions have
            elif rng.random() < 0.3:
                arg, ok = rng.randrange(len(params)), True
            else:
                arg, ok = rng.choice(params), True
            new = float(rng.randint(10, 99))
            hist.append((name, arg, new))
            try:
                bp.changeArg(name, arg, new)
                raised = None
            except Exception as e:  # noqa: BLE001
                raised = type(e).__name__
            evals += 1
            if ok:
                vals[arg if isinstance(arg, int) else params.index(arg)] = new
            if ok and raised:
                fails.append(f"changeArg({name!r}, {arg!r}, {new}) raised {raised} although the segment's function has that argument (history {hist})")
                break
            if not ok and not raised:
                fails.append(f"changeArg({name!r}, {arg!r}, {new}) was accepted although the segment's function has no such argument (history {hist})")
                break
            from broadbean.blueprint import _subelementBuilder
            wfm = _subelementBuilder(bp, bp.SR, bp.durations)["wfm"]
            got = [list(wfm[8 * i:8 * i + len(s[1])]) for i, s in enumerate(segs)]
            want = [s[2] for s in segs]
            desc = bp.description
            dgot = [list(desc[f"segment_{i + 1:02d}"]["arguments"].values()) for i in range(len(segs))]
            if got != want or dgot != want:
                fails.append(f"after changeArg({name!r}, {arg!r}, {new}) the segments' arguments are {got} (description {dgot}), "
                             f"expected {want}: functions of one family (same __qualname__) with parameters "
                             f"{[s[1] for s in segs]} (history {hist})")
                break
    for f in fails[:2]:
        ctx["report"]("same-named function family: " + f[:300], {"family_failure": f}, True)
    return {"evaluations": evals, "distinct_nontrivial": n_hist, "samples": [{"family_histories": n_hist}]}
