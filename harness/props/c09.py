"""C09 - copies and stored/derived objects are independent of their source."""
from .common import PARAMS, rnd_args
from .elgen import Regs

ID = "C09"
ALLOWED_AXIOMS = []
RULE = ("a source blueprint / element / sequence, one deriving step from {BluePrint.copy, Element.copy, Sequence.copy, "
        "addBluePrint, addElement, addSubSequence, blueprint +, sequence +, makeVaryingSequence, repeatAndVarySequence}, "
        "then 2-8 public mutations applied to randomly chosen sides (arguments, durations, inserted/removed segments, "
        "segment-bound and absolute markers, flags, sequencing, channel settings, sample rate, mutation through "
        "Sequence.element()), with the description (and forged output) of BOTH sides observed after every mutation. "
        "Non-trivial: mutations on both sides; distinct by (derive step, mutation sequence).")
TRUST = ["C09 statement oracle: a mutation of one side never changes the other side's description or forged output; "
         "right after the derive step both sides have the same description (implementation alone)"]


def generate(rng, tier):
    n = 140 if tier == "quick" else 4000
    for _ci in range(n):
        yield gen_case(rng)


def mk_bp(rng, regs, SR, N):
    r = regs.B()
    ops = [("BNew", r)]
    sizes = [2] * max(1, min(rng.randint(1, 3), N // 2))
    for _ in range(N - sum(sizes)):
        sizes[rng.randrange(len(sizes))] += 1
    names, funcs = [], []
    for n in sizes:
        f = rng.choice(["ramp", "sine", "ua", "ub2"])
        nm = rng.choice([None, "a", "b"])
        ops.append(("BInsert", r, -1, f, rnd_args(rng, f, n / SR), n / SR, nm))
        names.append(nm or f)
        funcs.append(f)
    from .common import uniquify
    names = uniquify(names)
    ops.append(("BSetSR", r, SR))
    if rng.random() < 0.5:
        ops.append(("BSetMarker", r, 1, [(1 / SR, 2 / SR)]))
    if rng.random() < 0.5:
        ops.append(("BSetSegMarker", r, names[0], (0, 1 / SR), 2))
    return r, ops, names, funcs, sizes


def bp_mut(rng, reg, names, funcs, sizes, SR):
    i = rng.randrange(len(names))
    k = rng.random()
    if k < 0.25:
        return ("BChangeArg", reg, names[i], rng.choice(PARAMS[funcs[i]]), rng.choice([0.5, -0.25, 1.5]), False)
    if k < 0.45:
        return ("BChangeDur", reg, names[i], sizes[i] / SR, False) if rng.random() < 0.3 else ("BChangeDur", reg, names[i], (sizes[i] + 1) / SR, False)
    if k < 0.6:
        return ("BSetSegMarker", reg, names[i], (0, rng.choice([1, 2]) / SR), rng.choice([1, 2]))
    if k < 0.7:
        return ("BSetMarker", reg, rng.choice([1, 2]), [(0, 2 / SR)])
    if k < 0.8:
        return ("BInsert", reg, rng.choice([0, -1]), "ramp", [0, 1], 2 / SR, "z")
    if k < 0.9:
        return ("BSetSR", reg, SR * 2)
    return ("BRemoveSegMarker", reg, names[i], 2)


def el_mut(rng, e, chans, meta, SR, regs, prog):
    c = rng.choice(chans)
    names, funcs, sizes = meta[c]
    i = rng.randrange(len(names))
    k = rng.random()
    if k < 0.4:
        return ("EChangeArg", e, c, names[i], rng.choice(PARAMS[funcs[i]]), rng.choice([0.5, -0.25]), False)
    if k < 0.6:
        return ("EChangeDur", e, c, names[i], sizes[i] / SR * rng.choice([1, 1]), False)
    if k < 0.8:
        return ("EAddFlags", e, c, [rng.choice([0, 1, 2, 3, 4]) for _ in range(4)])
    r2, ops, *_ = mk_bp(rng, regs, SR, sum(sizes))
    prog += ops
    return ("EAddBp", e, c, r2)


def seq_mut(rng, s, chans, meta, SR, npos):
    c = rng.choice(chans)
    k = rng.random()
    if k < 0.3:
        names, funcs, sizes = meta[c]
        i = rng.randrange(len(names))
        return ("SElemChangeArg", s, rng.randint(1, npos), c, names[i], rng.choice(PARAMS[funcs[i]]), rng.choice([0.5, -0.25]), False)
    if k < 0.45:
        return ("SSetSequencing", s, rng.randint(1, npos), rng.choice(["twait", "nrep", "jump_input", "jump_target", "goto"]), rng.choice([0, 1, 2]))
    if k < 0.55:
        return ("SSetAmp", s, c, rng.choice([2, 3]))
    if k < 0.65:
        return ("SSetOff", s, c, rng.choice([0, 0.5]))
    if k < 0.75:
        return ("SSetDelay", s, c, rng.choice([0, 2 / SR, 5 / SR]))
    if k < 0.85:
        return ("SSetFilter", s, c, rng.choice(["HP", "LP"]), rng.choice([1, 2]), SR * 0.1, None)
    if k < 0.92:
        return ("SSetSR", s, SR)
    return ("SSetName", s, rng.choice(["n1", "n2"]))


def gen_case(rng):
    regs = Regs()
    SR = rng.choice([100, 1000.0, 1e4])
    N = rng.randint(6, 20)
    derive = rng.choice(["bp.copy", "bp+", "addBluePrint", "el.copy", "addElement", "seq.copy", "seq+", "addSubSequence",
                         "makeVarying", "repeatAndVary"])
    prog = []
    sides = []          # (kind, register, mutation closure)
    obs = []
    if derive in ("bp.copy", "bp+", "addBluePrint"):
        r, ops, names, funcs, sizes = mk_bp(rng, regs, SR, N)
        prog += ops
        src = ("bp", r, lambda: bp_mut(rng, r, names, funcs, sizes, SR))
        if derive == "bp.copy":
            d = regs.B()
            prog.append(("BCopy", r, d))
            dst = ("bp", d, lambda: bp_mut(rng, d, names, funcs, sizes, SR))
        elif derive == "bp+":
            if rng.random() < 0.3:
                r2, n2, f2, s2 = regs.B(), [], [], []        # a + BluePrint(): nothing to append
                prog.append(("BNew", r2))
            else:
                r2, ops2, n2, f2, s2 = mk_bp(rng, regs, SR, N)
                prog += ops2
            d = regs.B()
            prog.append(("BAdd", r, r2, d))
            from .common import uniquify, basename
            nn = uniquify([basename(x) for x in names + n2])
            dst = ("bp", d, lambda: bp_mut(rng, d, nn, funcs + f2, sizes + s2, SR))
        else:
            e = regs.E()
            prog += [("ENew", e), ("EAddBp", e, 1, r)]
            meta = {1: (names, funcs, sizes)}
            dst = ("el", e, lambda: el_mut(rng, e, [1], meta, SR, regs, prog))
        sides = [src, dst]
    else:
        chans = rng.sample([1, 2, "A"], rng.randint(1, 2))
        e = regs.E()
        prog.append(("ENew", e))
        meta = {}
        for c in chans:
            r, ops, names, funcs, sizes = mk_bp(rng, regs, SR, N)
            prog += ops + [("EAddBp", e, c, r)]
            meta[c] = (names, funcs, sizes)
        src_e = ("el", e, lambda: el_mut(rng, e, chans, meta, SR, regs, prog))
        if derive == "el.copy":
            d = regs.E()
            prog.append(("ECopy", e, d))
            sides = [src_e, ("el", d, lambda: el_mut(rng, d, chans, meta, SR, regs, prog))]
        elif derive == "makeVarying":
            s = regs.S()
            c = chans[0]
            names, funcs, sizes = meta[c]
            prog.append(("TVarying", e, [c], [names[0]], [PARAMS[funcs[0]][0]], [[0.1, 0.2, 0.3]], s))
            sides = [src_e, ("seq", s, lambda: seq_mut(rng, s, chans, meta, SR, 3))]
        else:
            s = regs.S()
            prog += [("SNew", s), ("SSetSR", s, SR), ("SAddElement", s, 1, e)]
            npos = 1
            if rng.random() < 0.5:
                prog.append(("SAddElement", s, 2, e))
                npos = 2
            for c in chans:
                prog += [("SSetAmp", s, c, 2), ("SSetOff", s, c, 0)]
            if rng.random() < 0.5:
                prog.append(("SSetFilter", s, chans[0], "HP", 1, SR * 0.1, None))
            src_s = ("seq", s, lambda: seq_mut(rng, s, chans, meta, SR, npos))
            if derive == "addElement":
                sides = [src_e, src_s]
            elif derive == "seq.copy":
                d = regs.S()
                prog.append(("SCopy", s, d))
                sides = [src_s, ("seq", d, lambda: seq_mut(rng, d, chans, meta, SR, npos))]
            elif derive == "seq+":
                d = regs.S()
                prog.append(("SAdd", s, s, d))
                sides = [src_s, ("seq", d, lambda: seq_mut(rng, d, chans, meta, SR, 2 * npos))]
            elif derive == "addSubSequence":
                outer = regs.S()
                prog += [("SNew", outer), ("SSetSR", outer, SR), ("SAddSub", outer, 1, s)]
                sides = [src_s, ("seq", outer, lambda: ("SSetSequencing", outer, 1, rng.choice(["nrep", "goto"]), rng.choice([0, 2, 3])))]
            else:
                d = regs.S()
                c = chans[0]
                names, funcs, sizes = meta[c]
                prog.append(("TRepeat", s, [1], [c], [names[0]], [PARAMS[funcs[0]][0]], [[0.1, 0.2]], d))
                sides = [src_s, ("seq", d, lambda: seq_mut(rng, d, chans, meta, SR, 2 * npos))]

    def observe():
        o = []
        for kind, reg, _ in sides:
            if kind == "bp":
                o += [("OBDescr", reg), ("OBForge", reg)]
            elif kind == "el":
                o += [("OEDescr", reg), ("OEArrays", reg, False)]
            else:
                o += [("OSDescr", reg), ("OSForge", reg, True, True, False)]
        return o
    n_setup = len(prog)
    prog += observe()
    muts = []
    for _ in range(rng.randint(2, 8)):
        side = rng.randrange(2)
        m = sides[side][2]()
        prog.append(m)
        muts.append((side, m[0], len(prog) - 1))
        prog += observe()
    return {"prog": prog, "kind": derive, "muts": [list(m) for m in muts], "n_setup": n_setup,
            "sides": [(k, r) for k, r, _ in sides]}


def oracle(case, impl):
    from harness import lang
    out = []
    prog = case["prog"]
    sides = [tuple(s) for s in case["sides"]]
    obsname = {"bp": ("OBDescr", "OBForge"), "el": ("OEDescr", "OEArrays"), "seq": ("OSDescr", "OSForge")}

    def side_of(op):
        for i, (k, r) in enumerate(sides):
            if op[0] in obsname[k] and op[1] == r:
                return i
        return None
    last = {}
    mut_at = {m[2]: m[0] for m in case["muts"]}
    pending = None           # index of the side that was just mutated
    first_descr = {}
    for i, (op, r) in enumerate(zip(prog, impl)):
        if i < case["n_setup"]:
            continue
        sd = side_of(op)
        if sd is None:
            if i in mut_at:
                pending = mut_at[i]
            continue
        key = (sd, op[0])
        if key in last and pending is not None and sd != pending:
            a, b = last[key], r
            bad = (isinstance(a, lang.Err) != isinstance(b, lang.Err)) or (not isinstance(a, lang.Err) and lang.compare_plain_dict(strip(a), strip(b)))
            if bad:
                out.append(f"a mutation of side {pending} ({prog[i - 1][0] if False else 'see program'}) changed {op[0]} of the other side "
                           f"(derived by {case['kind']})")
        last[key] = r
        if op[0] in ("OBDescr", "OEDescr", "OSDescr") and sd not in first_descr:
            first_descr[sd] = r
    if case["kind"] in ("bp.copy", "el.copy", "seq.copy") and len(first_descr) == 2:
        if not isinstance(first_descr[0], lang.Err) and lang.compare_plain_dict(first_descr[0], first_descr[1]):
            out.append(f"{case['kind']}: the copy does not have the description of its source")
    return out[:4]


def strip(x):
    if isinstance(x, dict) and "calls" in x:
        return {k: v for k, v in x.items() if k != "calls"}
    return x


def nontrivial_key(case, impl):
    if len({m[0] for m in case["muts"]}) < 2:
        return None
    return (case["kind"], tuple((m[0], m[1]) for m in case["muts"]))


def extra_checks(ctx):
    """Alias-graph correspondence: every row of alias/table.json against the real objects (id() graph, contents)."""
    import subprocess
    import sys
    import os
    from harness import alias
    root = os.path.dirname(os.path.dirname(os.path.dirname(os.path.abspath(__file__))))
    if subprocess.run([sys.executable, os.path.join(root, "alias", "gen_coq.py"), "--check"]).returncode != 0:
        ctx["report"]("coq/Model/AliasTable.v is not what alias/gen_coq.py generates from alias/table.json", {}, False)
    rounds = 2 if ctx["tier"] == "quick" else 25
    n, fails, sample = alias.check_tables(ctx["seed"] + 7, rounds)
    for f in fails[:3]:
        ctx["report"]("effect table row violated by the implementation: " + f, {"alias_failure": f, "all": fails}, True)
    return {"evaluations": n, "distinct_nontrivial": len(alias.TABLE["mutators"]) + len(alias.TABLE["readonly"]) + len(alias.TABLE["derive"]),
            "samples": [{"alias_row": sample}], "alias_rows_checked": n}
