"""C10 - channel delays shift exactly the addressed channel, identically in every path."""
from fractions import Fraction

import numpy as np

from .elgen import CHAN_POOL, Regs
from .seqgen import build_sequence, delay_value

ID = "C10"
ALLOWED_AXIOMS = []
PROPS_FILES = ["C10", "C10b", "C15b", "Reach"]
RULE = ("consistent sequences of 1-3 positions and 1-4 channels (int and str ids) whose elements list their channels "
        "in independently shuffled order, blueprint channels (ramps, constant user functions, waits, marker 1 absolute, "
        "marker 2 segment-bound) and raw-array channels with markers, optional subsequences; per-channel delays of 0 "
        "or 2..40 whole samples incl. 0.29 s at 100 Sa/s; forge with delays on and off, outputForAWGFile and "
        "outputForSEQXFile are compared per channel and position (some cases with 2400+ points so that the SEQX path "
        "succeeds). Non-trivial: >= 2 channels, at least one non-zero delay, not all delays equal; distinct by "
        "(channel orders, kinds, delays, SR).")
TRUST = ["C10 statement oracle: delayed = zeros(d_c) ++ undelayed ++ zeros(M - d_c) per channel from the "
         "implementation's own undelayed forge; segment-bound/raw markers shifted, absolute markers unshifted; "
         "AWG/SEQX paths compared with forge"]


def generate(rng, tier):
    n = 110 if tier == "quick" else 3000
    for _ci in range(n):
        yield gen_case(rng, allow_big=_ci < 160)          # the very large cases are bounded in number (memory), also in the thorough tier


def gen_case(rng, allow_big=True):
    regs = Regs()
    SR = rng.choice([100, 100, 1000.0, 1e4, 25, 2.4e9, 256e9, 4e12])
    long = rng.random() < 0.2
    N = 2400 if long else rng.randint(6, 40)
    nch = rng.randint(1, 4)
    big = allow_big and rng.random() < 0.1 and not long            # delays of ~2.5e5 samples that differ by a few samples
    if big:
        nch = rng.randint(2, 3)
    chans = rng.sample(CHAN_POOL, nch)
    kinds = {c: rng.choice(["bp", "bp", "arr"]) if not big else "bp" for c in chans}
    subs = rng.random() < 0.3 and not long
    s, ops, meta = build_sequence(rng, regs, SR, N, chans, rng.randint(1, 3 if not long else 2), kinds,
                                  ["ramp", "ua"], subs=subs, waits=rng.choice([True, 0.6]),
                                  nseg=rng.choice([None, None, 5]))
    if rng.random() < 0.15 and not long:
        # the sequence's own sample-rate setting differs from the (common) rate its elements are sampled at: still
        # consistent (the gate compares the entries with each other); delays act at the elements' rate in every path
        ops.append(("SSetSR", s, SR * rng.choice([2, 0.5])))
    delays = {}
    zero_all = rng.random() < 0.12
    big_base = 250000
    for c in chans:
        d = 0 if zero_all else delay_value(rng, SR)
        if not zero_all and rng.random() < 0.04:
            d = float(Fraction(1) / Fraction(SR))            # exactly one sample: the second known finding (1-sample pre-padding)
        if big:
            d = float(Fraction(big_base + 4 * chans.index(c) + rng.choice([0, 2])) / Fraction(SR))      # pairwise different
        redeclared = rng.random() < 0.3
        if redeclared:
            # a delay set earlier and then changed (possibly back to 0): only the last value counts
            ops.append(("SSetDelay", s, c, float(Fraction(rng.choice([2, 4, 7, 29])) / Fraction(SR))))
        if d or redeclared or rng.random() < 0.5:
            ops.append(("SSetDelay", s, c, d))
        delays[str(c)] = d
        ops += [("SSetAmp", s, c, 2), ("SSetOff", s, c, rng.choice([0, 0.125]))]
    ops += [("OSChannels", s), ("OSForge", s, False, False, False), ("OSForge", s, True, False, False),
            ("OSAwg", s, ("slice", None, None, None)), ("OSSeqx", s, False)]
    has_sub = "sub" in meta["positions"].values()
    return {"prog": ops, "kind": "sub" if has_sub else ("long" if long else "plain"), "SR": SR, "N": N,
            "delays": delays, "kinds": {str(c): k for c, k in kinds.items()}, "has_sub": has_sub, "long": long,
            "amp_off": {str(o[2]): o[3] for o in ops if o[0] == "SSetOff"}}


def samples(delay, SR):
    return round(Fraction(delay) * Fraction(SR))


def oracle(case, impl):
    from harness import lang
    out = []
    prog = case["prog"]
    forges = [r for op, r in zip(prog, impl) if op[0] == "OSForge"]
    awg = [r for op, r in zip(prog, impl) if op[0] == "OSAwg"][0]
    sx = [r for op, r in zip(prog, impl) if op[0] == "OSSeqx"][0]
    chans_r = [r for op, r in zip(prog, impl) if op[0] == "OSChannels"][0]
    plain, delayed = forges
    SR = case["SR"]
    d = {c: samples(v, SR) for c, v in case["delays"].items()}
    M = max(d.values())
    # known finding: a blueprint channel exactly one sample below the maximum delay
    kf = any(M - d[c] == 1 and case["kinds"][c] == "bp" for c in d)
    if kf:
        bad = [nm for nm, v in (("forge", delayed), ("outputForAWGFile", awg), ("outputForSEQXFile", sx))
               if isinstance(v, lang.Err) and v.cls == "SegmentDurationError"]
        if bad:
            return [f"[KF:one-sample-post-padding] {', '.join(bad)} raised SegmentDurationError for delays (in samples) {d}"]
    # known finding: a blueprint channel delayed by exactly one sample (the prepended waituntil is 1 sample long)
    kf2 = any(d[c] == 1 and case["kinds"][c] == "bp" for c in d)
    if kf2:
        bad = [nm for nm, v in (("forge", delayed), ("outputForAWGFile", awg), ("outputForSEQXFile", sx))
               if isinstance(v, lang.Err) and v.cls == "SegmentDurationError"]
        if bad:
            return [f"[KF:one-sample-pre-padding] {', '.join(bad)} raised SegmentDurationError for delays (in samples) {d}"]
    if isinstance(plain, lang.Err) or isinstance(delayed, lang.Err):
        return [f"forge raised on a consistent sequence with non-negative whole-sample delays {d}: {lang.short(plain, 60)} / {lang.short(delayed, 60)}"]
    for pos in plain:
        for pos2 in plain[pos]["content"]:
            a = plain[pos]["content"][pos2]["data"]
            b = delayed[pos]["content"][pos2]["data"]
            for c in a:
                dc = d[str(c)]
                for key in a[c]:
                    u, v = np.asarray(a[c][key], dtype=float), np.asarray(b[c][key], dtype=float)
                    if key == "m1" and case["kinds"][str(c)] == "bp":
                        want = np.concatenate((u, np.zeros(M)))          # absolute-time marker keeps its time
                    else:
                        want = np.concatenate((np.zeros(dc), u, np.zeros(M - dc)))
                    if v.shape != want.shape or not np.array_equal(v, want):
                        out.append(f"position {pos}.{pos2} channel {c!r} {key}: delayed output is not the undelayed one moved "
                                   f"by {dc} samples (max delay {M}); lengths {len(u)} -> {len(v)}")
    if out:
        return out[:3]
    if not case["has_sub"]:
        if isinstance(awg, lang.Err):
            out.append(f"outputForAWGFile raised {awg.cls} on a consistent in-range sequence")
        else:
            wf = awg["item"][0]
            for i, c in enumerate(chans_r):
                off = case["amp_off"][str(c)]
                for p in range(len(wf[i])):
                    want = (np.asarray(delayed[p + 1]["content"][1]["data"][c]["wfm"]) - off) / 1.0
                    if wf[i][p].shape != want.shape or not np.allclose(wf[i][p], want, rtol=1e-9, atol=1e-12):
                        out.append(f"outputForAWGFile channel {c!r} position {p + 1} differs from the delayed forge output")
        if case["long"]:
            if isinstance(sx, lang.Err):
                out.append(f"outputForSEQXFile raised {sx.cls} on a consistent in-range sequence of 2400+ points")
            else:
                wf = sx[5]
                for i, c in enumerate(chans_r):
                    for p in range(len(wf[i])):
                        dd = delayed[p + 1]["content"][1]["data"][c]
                        for row, key in enumerate(("wfm", "m1", "m2")):
                            if not np.array_equal(wf[i][p][row], dd[key]):
                                out.append(f"outputForSEQXFile channel {c!r} position {p + 1} {key} differs from forge")
    return out[:4]


def nontrivial_key(case, impl):
    ds = list(case["delays"].values())
    if len(ds) < 2 or not any(ds) or len(set(ds)) < 2:
        return None
    return (tuple(sorted(case["delays"].items())), tuple(sorted(case["kinds"].items())), case["SR"],
            tuple(o[2] for o in case["prog"] if o[0] in ("EAddBp", "EAddArray")))
