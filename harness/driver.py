"""Generic check driver (see DESIGN.md section 3.4)."""
import argparse
import fcntl
import glob
import importlib
import json
import os
import random
import re
import shutil
import subprocess
import sys
import time
import traceback

from . import lang, modelrun

ROOT = os.path.dirname(os.path.dirname(os.path.abspath(__file__)))
COQ = os.path.join(ROOT, "coq")
WORK = os.path.join(ROOT, ".work")
FORBIDDEN = re.compile(r"\b(Admitted|admit|Axiom|Axioms|Parameter|Parameters|Conjecture|Conjectures|Hypothesis|Hypotheses"
                       r"|Variable|Variables|Unset\s+Guard|bypass_check|type-in-type|impredicative-set"
                       r"|Admit\s+Obligations|native_compute|Unset\s+Universe|Unset\s+Positivity)\b")
BASE_TRUST = [
    "Coq 8.16.1 kernel and vm_compute (no native_compute)",
    "extraction of the model to OCaml for the high-volume correspondence runs (coq/Extract.v: ExtrOcamlBasic only, i.e. "
    "Extract Inductive bool/option/unit/list/prod/sumbool/sumor and Extract Inlined Constant andb/orb; Z, positive, nat, Q, "
    "ascii, string stay the extracted inductives; harness/prelude.ml glue), cross-validated on every run against "
    "vm_compute inside Coq on the first cases of the run (identical printed output required)",
    "hand-written Gallina model coq/Model/*.v tied to /repo by the correspondence check of this run "
    "(harness/lang.py: program encoder, implementation runner, canonicaliser, plan materialiser; coq/Show.v printers)",
    "float gap: the implementation computes dur*SR, sums and wait-elapsed in binary64, the model exactly; "
    "generators stay away from rounding ties and Num.rnd_robust covers any error below 0.09 sample",
    "Python/numpy semantics (lists, dicts, deepcopy, inspect.signature, json, fromiter, argmin, slices) are modelled, not verified",
]


def log(*a):
    print(*a, flush=True)


# ------------------------------------------------------------------------------------ Coq build
def _lock():
    os.makedirs(WORK, exist_ok=True)
    f = open(os.path.join(WORK, "build.lock"), "w")
    fcntl.flock(f, fcntl.LOCK_EX)
    return f


def build_coq(clean=False, target=None):
    """Full .vo build of the development (incremental unless clean)."""
    lk = _lock()
    try:
        if clean or not os.path.exists(os.path.join(COQ, "Makefile")):
            if clean and os.path.exists(os.path.join(COQ, "Makefile")):
                subprocess.run(["make", "clean"], cwd=COQ, capture_output=True, text=True, timeout=600)
            r = subprocess.run(["coq_makefile", "-f", "_CoqProject", "-o", "Makefile"], cwd=COQ, capture_output=True,
                               text=True, timeout=120)
            if r.returncode != 0:
                return False, r.stdout + r.stderr
        cmd = ["make", "-k", "-j16"] + ([target] if target else [])
        r = subprocess.run(cmd, cwd=COQ, capture_output=True, text=True, timeout=3000)
        return r.returncode == 0, r.stdout[-8000:] + r.stderr[-12000:]
    finally:
        lk.close()


def failed_files(make_output):
    """Source files (relative to coq/, without extension) whose compilation failed in a `make -k` run."""
    return sorted(set(re.findall(r"\*\*\* \[[^\]]*?:\s*([\w/]+)\.vo\] Error", make_output)))


T_PREFIXES = ("Generated/", "Numeric/Atoms", "Numeric/RipassoFacts", "Numeric/Rescale", "Props/C02", "Props/C12",
              "Props/C13", "Props/C14n", "Numeric/GuardConstants", "Numeric/ForgeConstants", "Props/C01n",
              "Numeric/DFT")


def is_tfile(f):
    return f.startswith(T_PREFIXES)


def forbidden_scan():
    hits = []
    for path in glob.glob(os.path.join(COQ, "**", "*.v"), recursive=True):
        text = open(path).read()
        text_nc = re.sub(r"\(\*.*?\*\)", lambda m: " " * len(m.group(0)), text, flags=re.S)   # strip comments
        in_section = 0
        for ln, line in enumerate(text_nc.split("\n"), 1):
            if re.match(r"\s*Section\b", line):
                in_section += 1
            if re.match(r"\s*End\b", line) and in_section:
                in_section -= 1
            for m in FORBIDDEN.finditer(line):
                w = m.group(1)
                if w.split()[0] in ("Variable", "Variables", "Hypothesis", "Hypotheses") and in_section:
                    continue
                if re.search(r"\bContext\b", line):
                    continue
                hits.append(f"{os.path.relpath(path, ROOT)}:{ln}: {w}")
    return hits


def compile_props(pids):
    """Recompile the Props files of a property; merged (ok, theorems, {theorem: axioms}, log, printed)."""
    res = [compile_props_one(p) for p in pids]
    ax = {}
    for r in res:
        ax.update(r[2])
    return (all(r[0] for r in res), [t for r in res for t in r[1]], ax, "\n".join(r[3] for r in res),
            [t for r in res for t in r[4]])


def compile_props_one(pid):
    """Recompile Props/<pid>.v unconditionally; return (ok, theorems, {theorem: axioms}, log, printed)."""
    src = os.path.join(COQ, "Props", pid + ".v")
    text = open(src).read()
    theorems = re.findall(r"^\s*(?:Theorem|Corollary)\s+([A-Za-z0-9_']+)", text, re.M)
    lk = _lock()
    try:
        r = subprocess.run(["coqc", "-Q", ".", "BB", os.path.join("Props", pid + ".v")], cwd=COQ, capture_output=True,
                           text=True, timeout=1200)
    finally:
        lk.close()
    out = r.stdout
    axioms = {}
    # Print Assumptions output blocks, in order of the theorems printed
    blocks = re.split(r"(?=^Closed under the global context|^Axioms:|^Section Variables:)", out, flags=re.M)
    blocks = [b for b in blocks if b.startswith(("Closed", "Axioms", "Section"))]
    printed = [x.rstrip(".") for x in re.findall(r"^\s*Print Assumptions\s+([A-Za-z0-9_'.]+)", text, re.M)]
    for name, b in zip(printed, blocks):
        if b.startswith("Closed"):
            axioms[name] = []
        else:
            axioms[name] = sorted(set(re.findall(r"^([A-Za-z_][A-Za-z0-9_.']*)\s*(?::|$)", b, re.M)) - {"Axioms", "Section"})
    return r.returncode == 0, theorems, axioms, (r.stdout[-3000:] + r.stderr[-6000:]), printed


def run_coqchk(props_files):
    """Thorough tier: re-check the compiled Props files and everything they depend on with the independent checker.
    Returns (ok, axioms of the whole loaded context, log).  coqchk -o lists the axioms of every library loaded, not only
    those a theorem depends on (Coquelicot brings Classical_Prop.classic into the context of the real-number files)."""
    mods = ["BB.Props." + f for f in props_files]
    try:
        r = subprocess.run("ulimit -s unlimited; exec coqchk -silent -o -Q . BB " + " ".join(mods), shell=True, cwd=COQ,
                           capture_output=True, text=True, timeout=3000, executable="/bin/bash")
    except subprocess.TimeoutExpired:
        return False, [], "coqchk timed out"
    out = r.stdout + r.stderr
    m = re.search(r"\* Axioms:(.*?)\n\s*\n\* Constants/Inductives relying on type-in-type:(.*?)\n\s*\n\* Constants/Inductives relying on unsafe "
                  r"\(co\)fixpoints:(.*?)\n\s*\n\* Inductives whose positivity is assumed:(.*?)\n", out, re.S)
    if r.returncode != 0 or not m:
        return False, [], out[-3000:]
    ax = [x.strip() for x in m.group(1).split("\n") if x.strip() and x.strip() != "<none>"]
    unsafe = [g.strip() for g in m.groups()[1:] if g.strip() != "<none>"]
    return not unsafe, ax, out[-1500:]


# ------------------------------------------------------------------------------------ cases
def run_cases(pid, cases, workdir):
    """Run every case on the implementation and in the model; return per-case (impl, model, diffs)."""
    progs = [c["prog"] for c in cases]
    impl = [lang.run_impl(p) for p in progs]
    expanded = [lang.expand_macros(p) for p in progs]
    model = modelrun.run_model_fast([e[0] for e in expanded], workdir)
    model = [lang.collapse_macros(mo, e[1]) if len(mo) == len(e[0]) else mo for mo, e in zip(model, expanded)]
    out = []
    for c, im, mo in zip(cases, impl, model):
        diffs = []
        if len(im) != len(mo):
            diffs.append(f"result count model {len(mo)} impl {len(im)}")
        for i, (a, b) in enumerate(zip(mo, im)):
            try:
                d = lang.compare(a, b, f"op[{i}]={c['prog'][i][0]}")
            except Exception as e:  # noqa: BLE001
                d = [f"op[{i}]: comparison raised {type(e).__name__}: {e}"]
            diffs += d
        out.append((im, mo, diffs))
    return out


def shrink(pid, case, workdir, fails):
    """Greedy op deletion keeping `fails(case) -> bool` true; batches model runs."""
    cur = case
    for _round in range(8):
        prog = cur["prog"]
        idx = list(range(len(prog)))
        if len(idx) > 48:                      # bound the cost of a round on long programs
            step = len(idx) / 48.0
            idx = sorted({int(k * step) for k in range(48)})
        cands = [dict(cur, prog=prog[:i] + prog[i + 1:]) for i in idx if len(prog) > 1]
        if not cands:
            break
        try:
            res = run_cases(pid, cands, os.path.join(workdir, "shrink"))
        except Exception:  # noqa: BLE001
            break
        nxt = None
        for c, r in zip(cands, res):
            if fails(c, r):
                nxt = c
                break
        if nxt is None:
            break
        cur = nxt
    return cur


def jsonable(v):
    import numpy as np
    from fractions import Fraction
    if isinstance(v, dict):
        return {str(k): jsonable(x) for k, x in v.items()}
    if isinstance(v, (list, tuple)):
        return [jsonable(x) for x in v]
    if isinstance(v, np.ndarray):
        return {"ndarray_rle": lang.rle_of(v.ravel())[:40], "shape": list(v.shape)}
    if isinstance(v, (np.integer,)):
        return int(v)
    if isinstance(v, (np.floating,)):
        return float(v)
    if isinstance(v, Fraction):
        return float(v) if v.denominator != 1 else int(v)
    if isinstance(v, (lang.Err, lang.Plan, lang.Marker)):
        return repr(v)[:400]
    if isinstance(v, (str, int, float, bool)) or v is None:
        return v
    return repr(v)[:400]


def load_known():
    return json.load(open(os.path.join(ROOT, "known_findings.json")))


# ------------------------------------------------------------------------------------ main
def setup():
    t0 = time.time()
    gen = os.path.join(ROOT, "translator", "py2coq.py")
    if os.path.exists(gen):
        r = subprocess.run([sys.executable, gen, "--all"], cwd=ROOT, capture_output=True, text=True)
        if r.returncode != 0:
            log("translator failed:\n" + r.stdout[-3000:] + r.stderr[-3000:])
            return 2
    ok, out = build_coq(clean=True)
    if not ok:
        log("Coq build failed:\n" + out)
        return 2
    hits = forbidden_scan()
    if hits:
        log("forbidden vernacular found:\n" + "\n".join(hits))
        return 2
    modelrun.build_extracted()
    log(f"setup ok: full .vo build of coq/ in {time.time() - t0:.0f} s; no Admitted/Axiom/Parameter/... in the development")
    return 0


def main(argv):
    try:
        # a generated case that asks for an absurd number of samples must end as a MemoryError in that one case, not as an
        # out-of-memory kill of the check (or of the machine)
        import resource
        resource.setrlimit(resource.RLIMIT_AS, (48 << 30, 48 << 30))
    except Exception:  # noqa: BLE001
        pass
    if argv and argv[0] == "--rebaseline":
        # after a deliberate change of /repo (a fix: commit): the snapshot the reach obligation compares against
        from . import cover
        cover.write_baseline()
        print("coverage/baseline.json rewritten from", cover.src_dir())
        return 0
    if argv and argv[0] == "--setup":
        return setup()
    ap = argparse.ArgumentParser()
    ap.add_argument("pid")
    ap.add_argument("--tier", default=os.environ.get("VERIF_TIER", "quick"), choices=["quick", "thorough"])
    ap.add_argument("--replay")
    a = ap.parse_args(argv)
    pid = a.pid
    seed = int(os.environ.get("VERIF_SEED", "20260930"))
    t0 = time.time()
    mod = importlib.import_module(f"harness.props.{pid.lower()}")
    workdir = os.path.join(WORK, pid)
    shutil.rmtree(workdir, ignore_errors=True)
    os.makedirs(workdir, exist_ok=True)
    os.environ["VERIF_TMP"] = workdir
    replay_dir = os.path.join(ROOT, "replays", pid)
    os.makedirs(replay_dir, exist_ok=True)
    violations = []          # (signature, replay path, found_input: bool)
    notes = []

    def report(sig, payload, found):
        path = os.path.join(replay_dir, f"{pid}_{len(violations):02d}_{a.tier}.json")
        payload = dict(payload, property=pid, signature=sig, failing_input_found=found)
        json.dump(jsonable(payload), open(path, "w"), indent=1)
        violations.append((sig, path, found))

    # ---- 1. translation + Coq build -------------------------------------------------------
    ctx = {"pid": pid, "tier": a.tier, "seed": seed, "workdir": workdir, "report": report, "notes": notes, "log": log}
    from . import numeric
    failed_gen, tlog = numeric.run_translator()          # regenerates coq/Generated/*.v from /repo (fail closed)
    ok, out = build_coq()
    failed = failed_files(out) if not ok else []
    # a broken Props file of ANOTHER property is not this check's business (its own check reports it);
    # a broken Proofs/Model/Base file is, and so is this property's own Props file (compiled just below)
    hand_failed = [f for f in failed if not is_tfile(f) and not f.startswith("Props/")]
    if (not ok and not failed) or hand_failed:
        log("Coq build failed (hand-written development):\n" + out[-6000:])
        return 2
    hits = forbidden_scan()
    if hits:
        log("forbidden vernacular found:\n" + "\n".join(hits))
        return 2
    props_files = getattr(mod, "PROPS_FILES", [pid])
    t_files = getattr(mod, "T_FILES", [])
    broken = []                                          # obligations of tie T that no longer check
    for g in getattr(mod, "T_GEN", []):
        if g in failed_gen:
            broken.append(f"translation of {g} aborted (source outside the supported subset): " +
                          " ".join(l for l in tlog.splitlines() if g in l)[:300])
    broken += [f"{f}.v no longer compiles against the regenerated definitions" for f in failed if f in t_files]
    ok, theorems, axioms, plog, printed = compile_props(props_files)
    allowed = set(getattr(mod, "ALLOWED_AXIOMS", []))
    if not ok:
        if t_files:
            if not broken:
                m = re.search(r"Error:(.*)", plog, re.S)
                broken.append(f"Props/{'/'.join(props_files)}.v no longer compiles: " + (m.group(1)[:300] if m else plog[-300:]))
        else:
            log(f"Props/{pid}.v does not compile:\n" + plog)
            return 2
    if broken:
        found = []
        try:
            found = mod.search_failing_input(ctx) or []
        except Exception as e:  # noqa: BLE001
            notes.append(f"search for a failing input raised {type(e).__name__}: {e}")
        if found:
            for sig, payload in found[:3]:
                report(sig, dict(payload, broken_obligations=broken), True)
        else:
            report("proof obligation broken: " + broken[0][:160], {"broken_obligations": broken, "translator_log": tlog[-2000:],
                                                                  "coq_log": (out[-3000:] if failed else plog[-3000:])}, False)
    used_axioms = sorted({x for l in axioms.values() for x in l})
    bad_ax = [x for x in used_axioms if x not in allowed]
    if bad_ax:
        log(f"Props of {pid} depend on axioms outside the allow-list: {bad_ax}")
        return 2
    missing_pa = [t for t in theorems if t not in printed]
    if missing_pa and ok:
        log(f"Props of {pid}: theorems without Print Assumptions: {missing_pa}")
        return 2
    obligations = list(theorems)
    discharged = len(theorems) if ok else 0
    coqchk_axioms = None
    if a.tier == "thorough" and ok and not a.replay:
        ck_ok, coqchk_axioms, cklog = run_coqchk(props_files)
        allowed_ctx = {x.split(".")[-1] for x in allowed} | {"classic"}      # classic: loaded with Coquelicot, see above
        if not ck_ok or any(x.split(".")[-1] not in allowed_ctx for x in coqchk_axioms):
            log(f"coqchk does not accept the Props of {pid} (or reports an unexpected axiom / unsafe construct):\n{coqchk_axioms}\n{cklog}")
            return 2

    # ---- 2. replay mode ---------------------------------------------------------------------
    from . import cover
    cover.start()             # reach obligation: new source lines in exercised functions must be executed by this run
    rng = random.Random(seed)
    if a.replay:
        rp = json.load(open(a.replay))
        cases = [rp["case"]] if "case" in rp else ([rp] if "prog" in rp else [])     # a replay file or a corpus case
        if "numeric_case" in rp and hasattr(mod, "replay"):
            for f in mod.replay(rp["numeric_case"]) or []:
                report(f, {"numeric_case": rp["numeric_case"], "oracle_failures": [f]}, True)
        elif not cases:
            log(f"replay file names a broken obligation / table row only: {rp.get('signature')} - re-run ./check {pid} to re-check it")
    else:
        corpus = []
        for f in sorted(glob.glob(os.path.join(ROOT, "corpus", pid, "*.json"))):
            c = json.load(open(f))
            c["corpus"] = os.path.basename(f)
            corpus.append(c)
        cases = corpus + list(mod.generate(rng, a.tier))
        if a.tier == "thorough":
            # three independent streams (the per-module thorough counts are sized for ~1-3 minutes each)
            for extra_seed in (seed + 1000, seed + 2000):
                cases += list(mod.generate(random.Random(extra_seed), a.tier))

        if not getattr(mod, "NO_FOLLOWUP", False):
            # generic second phase (harness/followup.py): further calls - faults, edits through live handles - and the
            # program's own observations again; compared through the correspondence only.  Last, so that the in-Coq
            # cross-check sample and the per-property counts are those of the property's own programs.
            from . import followup
            cases += followup.make(random.Random(seed * 7919 + 13), [c for c in cases if "prog" in c],
                                   {"quick": 60}.get(a.tier, 600))

    # ---- 3. extra per-property work (translator validation, numeric oracles, alias graph) ------
    extra = getattr(mod, "extra_checks", None)
    extra_cov = extra(ctx) if extra and not a.replay else {}

    # ---- 4. correspondence + statement oracle ---------------------------------------------------
    cases = [detuple(c) for c in cases]
    def chunked_results():
        # the implementation's results (whole waveforms) are kept only for one chunk of cases at a time: the thorough
        # tier runs ten thousand programs, some with 100 000-sample channels
        CH = 1500
        for i in range(0, len(cases), CH):
            part = cases[i:i + CH]
            yield from zip(part, run_cases(pid, part, workdir if i == 0 else os.path.join(workdir, f"chunk{i // CH}")))
    oracle = getattr(mod, "oracle", None)
    n_diff = 0
    seen_sig = set()
    keys = set()
    dist = {}
    op_counts, err_kinds, prog_sizes = {}, {}, []
    n_dust = 0
    for c, (im, mo, diffs) in chunked_results():
        k = mod.nontrivial_key(c, im) if hasattr(mod, "nontrivial_key") and not c.get("followup") else None
        if k is not None:
            keys.add(k)
        dist[c.get("kind", "?")] = dist.get(c.get("kind", "?"), 0) + 1
        for op, r in zip(c["prog"], im):
            op_counts[op[0]] = op_counts.get(op[0], 0) + 1
            if isinstance(r, lang.Err):
                err_kinds[r.cls] = err_kinds.get(r.cls, 0) + 1
            elif op[0].startswith("O"):
                err_kinds["(observation returned)"] = err_kinds.get("(observation returned)", 0) + 1
        prog_sizes.append(len(c["prog"]))
        ofail = []
        if oracle and not c.get("followup"):
            try:
                ofail = oracle(c, im) or []
            except Exception as e:  # noqa: BLE001
                ofail = [f"oracle raised {type(e).__name__}: {e}\n{traceback.format_exc()[-800:]}"]
        if not diffs and not ofail:
            continue
        if lang.wait_dust(im):
            n_dust += 1          # a wait target equal to the elapsed time up to float dust: outcome is a rounding accident
            continue
        n_diff += 1
        sig = (ofail[0] if ofail else diffs[0])[:200]
        sigkey = normsig(sig)
        if sigkey in seen_sig or len([x for x in seen_sig if not x.startswith("[KF:")]) >= 5:
            continue
        seen_sig.add(sigkey)
        small = c
        if not a.replay and len(violations) < 3 and not sig.startswith("[KF:") and not os.environ.get("VERIF_NOSHRINK"):
            def fails(cc, r, want=sigkey, use_oracle=bool(ofail)):
                _im, _mo, d = r
                if lang.wait_dust(_im):
                    return False
                of = []
                if oracle and use_oracle:
                    try:
                        of = oracle(cc, _im) or []
                    except Exception:  # noqa: BLE001
                        of = []
                return any(normsig(x[:200]) == want for x in (of if use_oracle else d))
            small = shrink(pid, c, workdir, fails)
            (im2, mo2, diffs2), = run_cases(pid, [small], os.path.join(workdir, "final"))
            of2 = []
            if oracle:
                try:
                    of2 = oracle(small, im2) or []
                except Exception:  # noqa: BLE001
                    of2 = []
            if diffs2 or of2:
                im, mo, diffs, ofail = im2, mo2, diffs2, (of2 if ofail else ofail)
            else:
                small = c
        report(sig, {"case": small, "kind": "property statement fails on the implementation" if ofail else
                     "model/implementation correspondence broken",
                     "oracle_failures": ofail, "correspondence_diffs": diffs[:20],
                     "impl_results": im, "model_results": mo,
                     "broken": None if ofail else "correspondence between coq/Model (Interp.run) and /repo on this program"},
               found=bool(ofail))

    # ---- 4b. reach obligation of the tie ---------------------------------------------------------
    hits = cover.stop()
    unreached = []
    if not a.replay:
        own = cover.unreached_new_lines(hits)          # new lines in functions THIS run exercises that it did not execute
        if own:
            allhits, uerr = cover.union_hits()          # ... and that no generator of any property executes either
            if uerr:
                notes.append(uerr)
            reached = {(f, l) for f, l in allhits}
            unreached = [u for u in own if (u[0], u[1]) not in reached]
    if unreached:
        uf, ul, uq, ut = unreached[0]
        report(f"new code is not reached by any generated case: {uf}:{ul} in {uq}: {ut[:100]}",
               {"unreached_new_lines": [list(u) for u in unreached[:40]],
                "broken": "correspondence tie: source lines added or changed since the snapshot coverage/baseline.json, inside functions this "
                          "check exercises, that no generated case executes - the comparison with the model says nothing about them"},
               False)

    # ---- 5. known findings, verdict, evidence ------------------------------------------------------
    known = load_known()
    open_k = {}
    for k in known.get("open", []):
        m = re.match(r"open: property=(\S+) key=(\S+) (.*)", k)
        if m and m.group(1) == pid:
            open_k[m.group(2)] = m.group(3)
    final = []
    printed_kf = set()
    for sig, path, found in violations:
        m = re.match(r"\[KF:([^\]]+)\]", sig)
        if m and m.group(1) in open_k:
            if m.group(1) not in printed_kf:
                log(f"KNOWN-FINDING: property={pid} {open_k[m.group(1)][:300]} (replay={path})")
                printed_kf.add(m.group(1))
        else:
            final.append((sig, path, found))
    wall = time.time() - t0
    samples = [{"program": c["prog"][:12], "kind": c.get("kind")} for c in cases[:2]]
    samples += [{"theorem": t, "axioms": axioms.get(t, [])} for t in theorems[:3]]
    cov = {
        "obligations": len(obligations) + extra_cov.get("obligations", 0),
        "discharged": discharged + extra_cov.get("discharged", 0),
        "checker_cmd": "cd /verif && python3 translator/py2coq.py --all && cd coq && make -j16 && " +
                       " && ".join(f"coqc -Q . BB Props/{p}.v" for p in props_files) + f"   (run by ./check {pid}; Print Assumptions parsed)",
        "trusted_base": BASE_TRUST + list(getattr(mod, "TRUST", [])) +
                        [f"axioms reported by Print Assumptions this run: {used_axioms or 'none (closed under the global context)'}"],
        "theorems": theorems,
        "coqchk_context_axioms": coqchk_axioms if coqchk_axioms is not None else "not run in this tier",
        "evaluations": len(cases) + extra_cov.get("evaluations", 0),
        "distinct_nontrivial": len(keys) + extra_cov.get("distinct_nontrivial", 0),
        "rule": getattr(mod, "RULE", ""),
        "samples": samples + extra_cov.get("samples", []),
        "traces_validated_against_impl": len(cases),
        "correspondence_disagreements": n_diff,
        "float_ambiguous_cases_skipped": n_dust,
        "source_lines_executed": len(hits),
        "new_source_lines_unreached": len(unreached),
        "input_distribution": dist,
        "followup_programs": {"count": sum(1 for c in cases if c.get("followup")),
                              "first_call_kinds": {k: sum(1 for c in cases if c.get("first_kind") == k)
                                                   for k in sorted({c.get("first_kind") for c in cases if c.get("followup")})},
                              "with_retained_handles": sum(1 for c in cases if c.get("followup") and any(op[0] == "HHoldHandles" for op in c["prog"])),
                              "what": "generic second phase (harness/followup.py): further API calls - faults, edits through live "
                                      "element handles, settings, sums, sweeps - appended to this property's programs, followed by the "
                                      "programs' own observations again; compared model vs implementation only"},
        "outcome_distribution": err_kinds,          # exceptions raised by the implementation, by class, over all ops
        "op_counts": op_counts,
        "program_sizes": {"min": min(prog_sizes), "max": max(prog_sizes), "mean": round(sum(prog_sizes) / len(prog_sizes), 1)} if prog_sizes else {},
        "exhaustive": False,
    }
    for k, v in extra_cov.items():
        if k not in cov:
            cov[k] = v
    ev = {"property_id": pid, "tier": a.tier, "seed": seed, "level": "proof", "coverage": cov,
          "assumptions": BASE_TRUST + list(getattr(mod, "TRUST", [])) + notes, "wall_s": round(wall, 1),
          "violations": len(final)}
    if not a.replay:
        os.makedirs(os.path.join(ROOT, "evidence"), exist_ok=True)
        json.dump(ev, open(os.path.join(ROOT, "evidence", pid + ".json"), "w"), indent=1)
    for sig, path, found in final:
        log(f"VIOLATION property={pid} replay={path}" + ("" if found else " no-failing-input-found"))
        log(f"  {sig}")
    if final:
        return 1
    log(f"{pid} ok: {len(theorems)} theorems checked (axioms: {[x.split('.')[-1] for x in used_axioms] or 'none'}), "
        f"{len(cases)} cases model==implementation, {cov['evaluations']} evaluations, {cov['distinct_nontrivial']} distinct non-trivial, {wall:.0f} s")
    return 0


def normsig(sig):
    """Failure signature with op indices and numbers abstracted (for de-duplication and shrinking)."""
    return re.sub(r"[-+]?\d+(\.\d+)?(e[-+]?\d+)?", "#", re.sub(r"op\[\d+\]", "op[]", sig))


def detuple(c):
    """JSON turns tuples into lists; programs are lists of lists either way."""
    c = dict(c)
    c["prog"] = [list(o) for o in c["prog"]]
    return c
