"""Diagnostic (not a registered check): which lines of src/broadbean do the generated correspondence programs of all
properties execute on the implementation?  Lines never executed are code the tie H never exercises - used to aim the
generators.  usage: /venv/bin/python -m harness.covreport [tier] [seed]"""
import importlib
import os
import random
import sys
import types

ROOT = os.path.dirname(os.path.dirname(os.path.abspath(__file__)))
REPO = os.environ.get("VERIF_REPO", "/repo")
sys.path.insert(0, os.path.join(REPO, "src"))
sys.path.insert(0, ROOT)
SRC = os.path.join(REPO, "src", "broadbean")


def executable_lines(path):
    code = compile(open(path).read(), path, "exec")
    lines = set()
    stack = [code]
    while stack:
        c = stack.pop()
        lines.update(l for _s, _e, l in c.co_lines() if l is not None)
        stack += [k for k in c.co_consts if isinstance(k, types.CodeType)]
    return lines


def main():
    tier = sys.argv[1] if len(sys.argv) > 1 else "quick"
    seed = int(sys.argv[2]) if len(sys.argv) > 2 else 0
    import logging
    logging.disable(logging.CRITICAL)
    from harness import lang
    hit = {}

    def tracer(frame, event, arg):
        fn = frame.f_code.co_filename
        if not fn.startswith(SRC):
            return None
        if event == "line":
            hit.setdefault(fn, set()).add(frame.f_lineno)
        return tracer

    per_prop = {}
    for n in range(1, 21):
        pid = f"c{n:02d}"
        mod = importlib.import_module(f"harness.props.{pid}")
        rng = random.Random(seed)
        before = sum(len(v) for v in hit.values())
        k = 0
        sys.settrace(tracer)
        try:
            for case in mod.generate(rng, tier):
                lang.run_impl(case["prog"])
                k += 1
            extra = getattr(mod, "extra_checks", None)
            if extra:
                try:
                    extra({"pid": pid.upper(), "tier": tier, "seed": seed, "workdir": "/tmp", "report": lambda *a, **kw: None,
                           "notes": [], "log": lambda *a: None})
                except Exception as e:  # noqa: BLE001
                    print(f"  ({pid} extra_checks raised {type(e).__name__}: {e})")
        finally:
            sys.settrace(None)
        per_prop[pid] = (k, sum(len(v) for v in hit.values()) - before)
    print("cases and newly covered lines per property:", per_prop)
    for f in sorted(os.listdir(SRC)):
        if not f.endswith(".py"):
            continue
        path = os.path.join(SRC, f)
        ex = executable_lines(path)
        got = hit.get(path, set())
        miss = sorted(ex - got)
        print(f"\n== {f}: {len(ex & got)}/{len(ex)} executable lines executed")
        text = open(path).read().splitlines()
        # group into runs
        runs, cur = [], []
        for l in miss:
            if cur and l <= cur[-1] + 2:
                cur.append(l)
            else:
                if cur:
                    runs.append(cur)
                cur = [l]
        if cur:
            runs.append(cur)
        for r in runs:
            print(f"  {r[0]}-{r[-1]}: {text[r[0] - 1].strip()[:100]}")


if __name__ == "__main__":
    main()
