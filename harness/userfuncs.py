"""User-supplied pulse functions of 1, 2 and 4 user arguments, following the
(args..., SR, npts) convention.  They record every call so that the harness can check the
call convention of C02 (called once per forge with the stored arguments, the blueprint's SR
and the integer sample count).  Their names are what the model's fn_name / fn_descr say."""
import numpy as np

CALLS = []


def ua(x, SR, npts):
    CALLS.append(("ua", (x,), SR, npts))
    return x * np.ones(int(npts))


def ub2(a, b, SR, npts):
    CALLS.append(("ub2", (a, b), SR, npts))
    t = np.linspace(0, npts / SR, int(npts), endpoint=False)
    return a + b * t * SR


def uc(p, q, r, s, SR, npts):
    CALLS.append(("uc", (p, q, r, s), SR, npts))
    k = np.arange(int(npts))
    return p + q * (k % 2) + r * (k % 3) + s * (k % 5)


USER = {"ua": ua, "ub2": ub2, "uc": uc}
