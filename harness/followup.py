"""Follow-up programs: a generic second phase on top of every property's structured programs.

A follow-up takes a generated program P (which builds blueprints / elements / sequences and observes them) and
appends one or two rounds of

    a few further API calls  -  edits through the live element handle of a sequence position (`seq.element(pos).x`),
                                edits of stand-alone objects, settings for channels the sequence does not have,
                                and *faults*: calls that the library must reject (an element whose channels differ in
                                length added to an occupied position, a subsequence at another rate or a nested one,
                                an unknown argument, a replaceeverywhere edit that fails half-way, an invalid filter)
    followed by P's own observations again.

The appended calls are drawn without regard to whether they are valid: the model is total and mirrors the order of
checks and writes of the code, so model and implementation must agree on every outcome (value or exception) and on
every later observation.  This is what reaches state left behind by a rejected call, results cached across an edit,
and handles that outlive an export - the situations in which a structured generator, which only ever issues the calls
its own property is about, never finds itself.

Follow-ups are compared through the correspondence only; the property's statement oracle is written for the shape of
its own programs and is not run on them (the driver skips it for cases marked "followup").
"""
from fractions import Fraction

ARGS = {"ramp": ["start", "stop"], "sine": ["freq", "ampl", "off", "phase"], "gaussian": ["ampl", "sigma", "mu", "offset"],
        "gaussian_smooth_cutoff": ["ampl", "sigma", "mu", "offset"], "ua": ["x"], "ub2": ["a", "b"], "uc": ["p", "q", "r", "s"],
        "waituntil": []}
SMALL = [0, 0.125, -0.125, 0.25, 0.0625, 0.375]


class Shape:
    """What a program has built: registers by kind, the names / functions seen per blueprint, channels, positions."""

    def __init__(self, prog):
        self.B, self.E, self.S = {}, {}, {}
        self.srs = []
        for op in prog:
            self.apply(op)

    def apply(self, op):
        if True:
            k, a = op[0], op[1:]
            if k == "BNew":
                self.B[a[0]] = {"names": [], "fns": []}
            elif k == "BInsert":
                b = self.B.setdefault(a[0], {"names": [], "fns": []})
                at = len(b["fns"]) if a[1] == -1 or not isinstance(a[1], int) else max(0, min(a[1], len(b["fns"])))
                b["fns"].insert(at, a[2])
                b["names"].insert(at, (a[5] if a[5] else a[2]).rstrip("0123456789"))
                b.setdefault("durs", []).insert(at, a[4])
            elif k == "BRemove":
                b = self.B.get(a[0])
                if b and a[1] in unique_names(b["names"]):
                    i = unique_names(b["names"]).index(a[1])
                    del b["names"][i], b["fns"][i]
                    if len(b.get("durs", [])) > i:
                        del b["durs"][i]
            elif k in ("BCopy", "BFromJson"):
                src = self.B.get(a[0], {"names": [], "fns": []})
                self.B[a[1]] = {"names": list(src["names"]), "fns": list(src["fns"])}
            elif k == "BAdd":
                x, y = self.B.get(a[0], {"names": [], "fns": []}), self.B.get(a[1], {"names": [], "fns": []})
                self.B[a[2]] = {"names": x["names"] + y["names"], "fns": x["fns"] + y["fns"]}
            elif k == "BSetSR":
                self.B.setdefault(a[0], {"names": [], "fns": []})
                if isinstance(a[1], (int, float)) and a[1] > 0:
                    self.srs.append(a[1])
            elif k == "ENew":
                self.E[a[0]] = {"chans": {}}
            elif k == "EAddBp":
                import copy as _copy
                self.E.setdefault(a[0], {"chans": {}})["chans"][chkey(a[1])] = ("bp", a[1], _copy.deepcopy(self.B.get(a[2])))
            elif k == "EAddArray":
                self.E.setdefault(a[0], {"chans": {}})["chans"][chkey(a[1])] = ("arr", a[1], None)
            elif k in ("ECopy", "EFromJson"):
                import copy as _copy
                self.E[a[1]] = _copy.deepcopy(self.E.get(a[0], {"chans": {}}))
            elif k == "SNew":
                self.S[a[0]] = {"pos": {}}
            elif k == "SSetAmp":
                self.S.setdefault(a[0], {"pos": {}}).setdefault("amp", {})[chkey(a[1])] = a[2]
            elif k == "SSetSR":
                self.S.setdefault(a[0], {"pos": {}})
                if isinstance(a[1], (int, float)) and a[1] > 0:
                    self.srs.append(a[1])
            elif k == "SAddElement":
                import copy as _copy
                self.S.setdefault(a[0], {"pos": {}})["pos"][a[1]] = ("el", _copy.deepcopy(self.E.get(a[2], {"chans": {}})))
            elif k == "SAddSub":
                self.S.setdefault(a[0], {"pos": {}})["pos"][a[1]] = ("sub", a[2])
            elif k in ("SCopy", "SFromJson"):
                self.S[a[1]] = {"pos": dict(self.S.get(a[0], {"pos": {}})["pos"])}
            elif k == "SAdd":
                x, y = self.S.get(a[0], {"pos": {}})["pos"], self.S.get(a[1], {"pos": {}})["pos"]
                n = len(x)
                self.S[a[2]] = {"pos": {**x, **{(p + n if isinstance(p, int) else p): v for p, v in y.items()}}}
            elif k in ("TVarying", "TLinear"):
                its = a[4] if k == "TVarying" else None
                n = len(its[0]) if its and its[0] else 3
                import copy as _copy
                self.S[a[-1]] = {"pos": {p: ("el", _copy.deepcopy(self.E.get(a[0], {"chans": {}}))) for p in range(1, n + 1)}}
            elif k == "TRepeat":
                self.S[a[-1]] = {"pos": dict(self.S.get(a[0], {"pos": {}})["pos"])}

    def fresh(self, kind):
        d = getattr(self, kind)
        r = max(list(d) + [-1]) + 1
        d[r] = {"names": [], "fns": []} if kind == "B" else ({"chans": {}} if kind == "E" else {"pos": {}})
        return r

    def bp_of(self, s, pos, c):
        """Blueprint shape behind sequence position / channel, as far as the program text tells."""
        ent = self.S.get(s, {"pos": {}})["pos"].get(pos)
        if not ent or ent[0] != "el":
            return None
        ch = ent[1]["chans"].get(chkey(c))
        if not ch or ch[0] != "bp":
            return None
        return ch[2]


def chkey(c):
    return f"{type(c).__name__}:{c}"


def unique_names(bases):
    """The library's naming rule: the k-th segment sharing a base name is base (k = 1) or base + str(k)."""
    seen, out = {}, []
    for n in bases:
        seen[n] = seen.get(n, 0) + 1
        out.append(n if seen[n] == 1 else f"{n}{seen[n]}")
    return out


def pick_name(rng, b):
    """Mostly a segment name that exists (by the naming rule applied to what the program inserted), sometimes not."""
    names = unique_names((b or {}).get("names", []))
    if names and rng.random() < 0.8:
        return rng.choice(names)
    return rng.choice(names + ["ramp", "nosuchsegment"] + [n + "2" for n in names])


def pick_arg(rng, b, name):
    fns = (b or {}).get("fns", [])
    names = (b or {}).get("names", [])
    fn = None
    for f, n in zip(fns, unique_names(names)):
        if n == name:
            fn = f
    al = ARGS.get(fn, ["start", "stop"])
    r = rng.random()
    if r < 0.7 and al:
        return rng.choice(al)
    if r < 0.8:
        return rng.randint(0, 2)
    return rng.choice(["stop", "ampl", "x", "nosucharg", "SR", "dur"])


def some_sr(rng, sh):
    return rng.choice(sh.srs) if sh.srs else 100


def dur_value(rng, SR):
    n = rng.choice([2, 3, 5, 8, 13, 21])
    f = rng.choice([0, 0, 0.25])
    return float((Fraction(n) + Fraction(f)) / Fraction(SR))


def bad_element(rng, sh, chans, SR):
    """Ops building an element whose channels have different lengths (validation must refuse it)."""
    e = sh.fresh("E")
    ops = [("ENew", e)]
    chans = list(chans)[:3] or [1]
    if len(chans) == 1:
        chans = chans + [99]
    for i, c in enumerate(chans):
        b = sh.fresh("B")
        n = 6 + 3 * i
        ops += [("BNew", b), ("BInsert", b, -1, "ramp", [0, 0.125], float(Fraction(n) / Fraction(SR)), "z"), ("BSetSR", b, SR),
                ("EAddBp", e, c, b)]
    return e, ops


def partial_everywhere(rng, sh, SR, in_sequence):
    """Self-contained fault: two segments sharing a base name but not a function; a replaceeverywhere edit of an
    argument only the first function has changes the first segment and is then rejected on the second.  Observed
    before and after: arrays, description, equality with a copy taken before the call."""
    b, e, cp = sh.fresh("B"), sh.fresh("E"), sh.fresh("E")
    d = float(Fraction(12) / Fraction(SR))
    first = rng.choice(["ramp", "sine"])
    segs = [("ramp", [0, 0.125]), ("sine", [1 / d, 0.125, 0, 0])]
    if first == "sine":
        segs.reverse()
    ops = [("BNew", b)] + [("BInsert", b, -1, f, a, d, "p") for f, a in segs] + [("BSetSR", b, SR), ("ENew", e), ("EAddBp", e, 1, b)]
    arg = "stop" if first == "ramp" else "freq"
    val = 0.25 if first == "ramp" else 2 / d
    if not in_sequence:
        ops += [("OEArrays", e, False), ("ECopy", e, cp), ("EChangeArg", e, 1, "p", arg, val, True)]
        return ops, [("OEArrays", e, False), ("OEDescr", e), ("OEEq", e, cp), ("OEEq", cp, e)]
    q, qc = sh.fresh("S"), sh.fresh("S")
    ops += [("SNew", q), ("SSetSR", q, SR), ("SAddElement", q, 1, e), ("SSetAmp", q, 1, 2), ("SSetOff", q, 1, 0),
            ("OSForge", q, True, True, False), ("SCopy", q, qc), ("SElemChangeArg", q, 1, 1, "p", arg, val, True)]
    return ops, [("OSForge", q, True, True, False), ("OSDescr", q), ("OSEq", q, qc), ("OSAwg", q, ("slice", None, None, None))]


def tail(rng, sh, extra_obs):
    """A few further API calls on what the program has built (observations worth adding go to extra_obs)."""
    ops = []
    seqs = [s for s, v in sh.S.items() if v["pos"]]
    els = [e for e, v in sh.E.items() if v["chans"]]
    bps = [b for b, v in sh.B.items() if v["names"]]
    for _ in range(rng.randint(1, 3)):
        kinds = []
        if seqs:
            kinds += ["handle_arg", "handle_arg", "handle_dur", "bad_add", "bad_add", "bad_sub", "set_absent", "bad_filter",
                      "sequencing", "rate", "amp", "delay", "partial_seq", "copy_seq", "failed_export", "failed_export", "failed_forge"]
        if els:
            kinds += ["el_arg", "el_dur", "el_overwrite", "partial_el", "copy_el"]
        if bps:
            kinds += ["bp_arg", "bp_dur", "bp_insert", "bp_remove", "bp_burst", "bp_burst"]
        if not kinds:
            return ops
        k = rng.choice(kinds)
        if k in ("partial_el", "partial_seq"):
            o, ob = partial_everywhere(rng, sh, some_sr(rng, sh), k == "partial_seq")
            ops += o
            extra_obs += ob
        elif k in ("copy_el", "copy_seq"):
            if k == "copy_el":
                e = rng.choice(els)
                cp = sh.fresh("E")
                ops.append(("ECopy", e, cp))
                extra_obs += [("OEEq", e, cp), ("OEEq", cp, e)]
            else:
                q = rng.choice(seqs)
                cp = sh.fresh("S")
                ops.append(("SCopy", q, cp))
                extra_obs += [("OSEq", q, cp), ("OSDescr", cp)]
        elif k == "bp_burst":
            r = rng.choice(bps)
            b = sh.B[r]
            SR = some_sr(rng, sh)
            for _j in range(rng.randint(3, 6)):
                nm = pick_name(rng, b)
                kk = rng.choice(["mark", "mark", "unmark", "remove", "insert", "insert", "arg", "dur"])
                if kk == "mark":
                    op = ("BSetSegMarker", r, nm, [rng.choice([0, dur_value(rng, SR)]), dur_value(rng, SR)], rng.choice([1, 2]))
                elif kk == "unmark":
                    op = ("BRemoveSegMarker", r, nm, rng.choice([1, 2]))
                elif kk == "remove":
                    op = ("BRemove", r, nm)
                elif kk == "insert":
                    op = ("BInsert", r, rng.choice([0, 1, 2, -1]), rng.choice(["ramp", "ramp", "sine"]),
                          rng.choice([[0.125, 0], [0, 0.25]]), dur_value(rng, SR), rng.choice([None, nm.rstrip("0123456789") or "q", "q"]))
                    if op[3] == "sine":
                        op = op[:4] + ([1 / op[5], 0.125, 0, 0],) + op[5:]
                elif kk == "arg":
                    op = ("BChangeArg", r, nm, pick_arg(rng, b, nm), rng.choice(SMALL), rng.random() < 0.35)
                else:
                    op = ("BChangeDur", r, nm, dur_value(rng, SR), rng.random() < 0.3)
                ops.append(op)
                Shape.apply(sh, op)
            extra_obs += [("OBDescr", r), ("OBForge", r)]
        elif k in ("handle_arg", "handle_dur", "bad_add", "bad_sub", "set_absent", "bad_filter", "sequencing", "rate", "amp", "delay", "failed_export", "failed_forge"):
            s = rng.choice(seqs)
            poss = list(sh.S[s]["pos"])
            pos = rng.choice(poss)
            ent = sh.S[s]["pos"][pos]
            chans = [v[1] for v in ent[1]["chans"].values()] if ent[0] == "el" else []
            c = rng.choice(chans) if chans else 1
            b = sh.bp_of(s, pos, c)
            SR = some_sr(rng, sh)
            if k == "handle_arg":
                nm = pick_name(rng, b)
                ops.append(("SElemChangeArg", s, pos, c, nm, pick_arg(rng, b, nm), rng.choice(SMALL), rng.random() < 0.35))
            elif k == "handle_dur":
                nm = pick_name(rng, b)
                ops.append(("SElemChangeDur", s, pos, c, nm, rng.choice([dur_value(rng, SR)] * 4 + [0, -1.0, "x"]), rng.random() < 0.3))
            elif k == "bad_add":
                e, o = bad_element(rng, sh, chans, SR)
                at = rng.choice([pos, pos, max([p for p in poss if isinstance(p, int)] + [0]) + 1])
                ops += o + [("SAddElement", s, at, e)]
            elif k == "bad_sub":
                others = [x for x in sh.S if x != s]
                if rng.random() < 0.5 or not others:
                    t = sh.fresh("S")
                    e0 = rng.choice(els) if els else None
                    ops += [("SNew", t), ("SSetSR", t, SR * 2)] + ([("SAddElement", t, 1, e0)] if e0 is not None else [])
                else:
                    t = rng.choice(others)          # possibly one that itself holds a subsequence (nesting is refused)
                ops.append(("SAddSub", s, rng.choice([pos, pos, len(poss) + 1]), t))
            elif k == "set_absent":
                absent = rng.choice([98, "zz"])
                ops.append(rng.choice([("SSetDelay", s, absent, float(Fraction(rng.choice([50, 64, 100])) / Fraction(SR))),
                                       ("SSetAmp", s, absent, 1), ("SSetOff", s, absent, 0.125)]))
            elif k == "bad_filter":
                ops.append(rng.choice([("SSetFilter", s, c, "XX", 1, SR * 0.2, None),
                                       ("SSetFilter", s, c, "HP", 1, SR * 0.2, 1 / (SR * 0.2)),
                                       ("SSetFilter", s, c, "LP", None, SR * 0.2, None)]))
            elif k == "sequencing":
                ops.append(("SSetSequencing", s, pos, rng.choice(["twait", "nrep", "jump_target", "goto"]), rng.choice([0, 1, 2, 3])))
            elif k == "rate":
                ops.append(("SSetSR", s, rng.choice([SR, SR * 2])))
            elif k == "amp":
                ops.append(("SSetAmp", s, c, rng.choice([0.0009765625, 4, 4, 8])))
                extra_obs += [("OSSeqx", s, True), ("OSAwg", s, ("slice", None, None, None))]
            elif k == "failed_export":
                # an export that is refused half-way (amplitude far too small for the voltages), the cause repaired, a
                # delay changed, and everything observed again
                old = sh.S[s].get("amp", {}).get(chkey(c), 4)
                exp = rng.choice([("OSSeqx", s, True), ("OSSeqx", s, False), ("OSAwg", s, ("slice", None, None, None))])
                ops += [("SSetAmp", s, c, 0.0009765625), exp, ("SSetAmp", s, c, old),
                        ("SSetDelay", s, c, float(Fraction(rng.choice([2, 3, 8, 20])) / Fraction(SR)))]
                extra_obs += [("OSSeqx", s, False), ("OSSeqx", s, True), ("OSForge", s, True, True, False)]
            elif k == "failed_forge":
                # a segment of one sample (accepted by changeDuration, refused by the forger), forge, repair, forge
                names = unique_names((b or {}).get("names", []))
                if names and len((b or {}).get("durs", [])) == len(names):
                    i = rng.randrange(len(names))
                    if isinstance(b["durs"][i], (int, float)):
                        ops += [("SElemChangeDur", s, pos, c, names[i], float(Fraction(1) / Fraction(SR)), False),
                                ("OSForge", s, True, True, False), ("OSDescr", s),
                                ("SElemChangeDur", s, pos, c, names[i], b["durs"][i], False)]
                        extra_obs += [("OSForge", s, True, True, False), ("OSPoints", s)]
            elif k == "delay":
                ops.append(("SSetDelay", s, c, float(Fraction(rng.choice([0, 2, 3, 8, 20])) / Fraction(SR))))
                extra_obs += [("OSSeqx", s, rng.random() < 0.5), ("OSForge", s, True, True, False)]
        elif k in ("el_arg", "el_dur", "el_overwrite"):
            e = rng.choice(els)
            ch = rng.choice(list(sh.E[e]["chans"].values()))
            b = ch[2] if ch[0] == "bp" else None
            SR = some_sr(rng, sh)
            nm = pick_name(rng, b)
            if k == "el_arg":
                ops.append(("EChangeArg", e, ch[1], nm, pick_arg(rng, b, nm), rng.choice(SMALL), rng.random() < 0.35))
            elif k == "el_dur":
                ops.append(("EChangeDur", e, ch[1], nm, rng.choice([dur_value(rng, SR)] * 3 + [0, "x"]), rng.random() < 0.3))
            else:
                nb = sh.fresh("B")
                SR2 = rng.choice([SR, SR * 2])
                ops += [("BNew", nb), ("BInsert", nb, -1, "ramp", [0, 0.125], float(Fraction(8) / Fraction(SR2)), "w"),
                        ("BSetSR", nb, SR2), ("EAddBp", e, ch[1], nb)]
        else:
            r = rng.choice(bps)
            b = sh.B[r]
            SR = some_sr(rng, sh)
            nm = pick_name(rng, b)
            if k == "bp_arg":
                ops.append(("BChangeArg", r, nm, pick_arg(rng, b, nm), rng.choice(SMALL), rng.random() < 0.35))
            elif k == "bp_dur":
                ops.append(("BChangeDur", r, nm, rng.choice([dur_value(rng, SR)] * 3 + [0, "x"]), rng.random() < 0.3))
            elif k == "bp_insert":
                ops.append(("BInsert", r, rng.choice([0, 1, -1]), "ramp", [0.125, 0], dur_value(rng, SR), rng.choice([None, nm.rstrip("0123456789") or "q"])))
            else:
                ops.append(("BRemove", r, nm))
    return ops


def huge(prog):
    """Programs with very long waveforms (tens of thousands of samples) are left to their own generators."""
    for op in prog:
        if op[0] == "EAddArray" and sum(int(c) for _v, c in op[3]) > 5000:
            return True
        if op[0] == "BInsert" and isinstance(op[5 - 1], (int, float)) and False:
            return True
    return False


def make(rng, cases, n, max_prog=90):
    """-> up to n follow-up cases built on randomly chosen base cases with moderate programs."""
    out = []
    pool = [c for c in cases if not c.get("corpus") and len(c["prog"]) <= max_prog and len(repr(c["prog"])) < 12000
            and not huge(c["prog"]) and not any(op[0] in ("HArrayArgs",) for op in c["prog"])]
    rng.shuffle(pool)
    for c in pool:
        if len(out) >= n:
            break
        prog = [tuple(op) for op in c["prog"]]
        obs = [op for op in prog if op[0].startswith("O")]
        if not obs:
            continue
        if len(obs) > 10:
            obs = sorted(rng.sample(range(len(obs)), 10))
            obs = [o for i, o in enumerate([op for op in prog if op[0].startswith("O")]) if i in obs]
        sh = Shape(prog)
        new = list(prog)
        if sh.S and rng.random() < 0.5:
            # element handles fetched before the program's first observation and kept: later edits through them happen
            # without any further `element()` call
            first = next(i for i, op in enumerate(new) if op[0].startswith("O"))
            new.insert(first, ("HHoldHandles",))
        added = 0
        for _round in range(rng.randint(1, 2)):
            extra_obs = []
            t = tail(rng, sh, extra_obs)
            if not t:
                break
            added += len(t)
            for op in t:
                if op[0] in ("BNew", "ENew", "SNew", "BInsert", "EAddBp", "SAddElement", "SAddSub", "ECopy", "SCopy", "BSetSR", "SSetSR"):
                    sh.apply(op)
            obs = obs + [o for o in extra_obs if o not in obs]
            new += t + obs
        if not added:
            continue
        out.append({"prog": new, "kind": "followup", "followup": True, "base_kind": c.get("kind"), "n_base": len(prog)})
    return out
