"""Follow-up programs: a generic second phase on top of every property's structured programs.

A follow-up takes a generated program P (which builds blueprints / elements / sequences and observes them) and
appends one or two rounds of

    a few further API calls  -  edits through the live element handle of a sequence position (`seq.element(pos).x`),
                                edits of stand-alone objects, settings for channels the sequence does not have,
                                and *faults*: calls that the library must reject (an element whose channels differ in
                                length added to an occupied position, a subsequence at another rate or a nested one,
                                an unknown argument, a replaceeverywhere edit that fails half-way, an invalid filter)
    followed by P's own observations again.

The appended calls are drawn without regard to whether they are valid: the model is total and mirrors the order of
checks and writes of the code, so model and implementation must agree on every outcome (value or exception) and on
every later observation.  This is what reaches state left behind by a rejected call, results cached across an edit,
and handles that outlive an export - the situations in which a structured generator, which only ever issues the calls
its own property is about, never finds itself.

Follow-ups are compared through the correspondence only; the property's statement oracle is written for the shape of
its own programs and is not run on them (the driver skips it for cases marked "followup").
"""
from fractions import Fraction

ARGS = {"ramp": ["start", "stop"], "sine": ["freq", "ampl", "off", "phase"], "gaussian": ["ampl", "sigma", "mu", "offset"],
        "gaussian_smooth_cutoff": ["ampl", "sigma", "mu", "offset"], "ua": ["x"], "ub2": ["a", "b"], "uc": ["p", "q", "r", "s"],
        "waituntil": []}
SMALL = [0, 0.125, -0.125, 0.25, 0.0625, 0.375]


COUNTING = ("OBForge", "OBPoints", "OEArrays", "OEPoints", "OEValidate", "OESR", "OEDuration", "OSForge", "OSAwg", "OSSeqx",
            "OSPoints", "OSCheck", "OSChannels", "OSDuration")


POINTS_OBS = ("OBPoints", "OEPoints", "OEValidate", "OESR", "OEDuration", "OSPoints", "OSCheck", "OSChannels", "OSDuration")


def _counted(prog, obs_class):
    ok = {"B": set(), "E": set(), "S": set()}
    into = {"E": set(), "B": set()}          # (container register, content register) pairs still in step
    for op in prog:
        k = op[0]
        if k in obs_class:
            ok[k[1]].add(op[1])
            if k[1] == "S":
                for (q, e) in into["E"]:
                    if q == op[1]:
                        ok["E"].add(e)
            for _pass in (0, 1):
                for (e, r) in into["B"]:
                    if e in ok["E"]:
                        ok["B"].add(r)
            continue
        if k.startswith("O") or k.startswith("H"):
            continue
        kind = k[0]
        if kind == "T":
            ok["S"].discard(op[-1])
            into["E"] = {p for p in into["E"] if p[0] != op[-1]}
            if k in ("TVarying", "TLinear"):
                into["E"].add((op[-1], op[1]))          # every position of the result is a copy of the base element
            continue
        target = op[-1] if k in ("BCopy", "BFromJson", "BAdd", "ECopy", "EFromJson", "SCopy", "SFromJson", "SAdd") else op[1]
        ok[kind].discard(target)
        if kind == "E":
            into["E"] = {p for p in into["E"] if p[1] != target}
            into["B"] = {p for p in into["B"] if p[0] != target}
        elif kind == "B":
            into["B"] = {p for p in into["B"] if p[1] != target}
        elif kind == "S":
            into["E"] = {p for p in into["E"] if p[0] != target} if k in ("SNew", "SCopy", "SFromJson", "SAdd") else into["E"]
        if k == "SAddElement":
            into["E"].add((op[1], op[3]))
        elif k == "EAddBp":
            into["B"].add((op[1], op[3]))
    return ok


def counted_registers(prog):
    """Registers whose sample counts the program itself computed AFTER their last mutation, per way of computing them:
    "forge" (per-segment counts, marker windows: OBForge, OEArrays, OSForge, OSAwg, OSSeqx) and "points" (round of the
    TOTAL duration, validity: points, validateDurations, checkConsistency, channels ...).  Only those are known to be
    free of rounding ties in that computation at their current rates - four segments of 5.1, 6.8, 11.9 and 1.7 samples
    forge without a tie and have 25.5 points.  An element / blueprint copied into a counted sequence / element and not
    touched since counts as well.  -> {"forge": {...}, "points": {...}, "B"/"E"/"S": both}."""
    f, p = _counted(prog, FORGING[:5]), _counted(prog, POINTS_OBS)
    return {"forge": f, "points": p, "B": f["B"], "E": f["E"] & p["E"], "S": f["S"] & p["S"]}


class Shape:
    """What a program has built: registers by kind, the names / functions seen per blueprint, channels, positions."""

    def __init__(self, prog):
        self.B, self.E, self.S = {}, {}, {}
        self.srs = []
        for op in prog:
            self.apply(op)

    def apply(self, op):
        if True:
            k, a = op[0], op[1:]
            if k == "BNew":
                self.B[a[0]] = {"names": [], "fns": []}
            elif k == "BInsert":
                b = self.B.setdefault(a[0], {"names": [], "fns": []})
                at = len(b["fns"]) if a[1] == -1 or not isinstance(a[1], int) else max(0, min(a[1], len(b["fns"])))
                b["fns"].insert(at, a[2])
                b["names"].insert(at, (a[5] if a[5] else a[2]).rstrip("0123456789"))
                b.setdefault("durs", []).insert(at, a[4])
            elif k in ("BSetMarker", "BSetSegMarker"):
                self.B.setdefault(a[0], {"names": [], "fns": []})["marked"] = True
            elif k == "BChangeDur":
                b = self.B.get(a[0])
                if b and isinstance(a[2], (int, float)) and not isinstance(a[2], bool) and len(b.get("durs", [])) == len(b["names"]):
                    un = unique_names(b["names"])
                    base = a[1].rstrip("0123456789")
                    for i, n in enumerate(un):
                        if n == a[1] or (a[3] and b["names"][i] == base):
                            b["durs"][i] = a[2]
            elif k == "BRemove":
                b = self.B.get(a[0])
                if b and a[1] in unique_names(b["names"]):
                    i = unique_names(b["names"]).index(a[1])
                    del b["names"][i], b["fns"][i]
                    if len(b.get("durs", [])) > i:
                        del b["durs"][i]
            elif k in ("BCopy", "BFromJson"):
                import copy as _copy
                self.B[a[1]] = _copy.deepcopy(self.B.get(a[0], {"names": [], "fns": []}))
                if k == "BFromJson":
                    self.B[a[1]].pop("sr", None)          # the sample rate is not part of a description
            elif k == "BAdd":
                x, y = self.B.get(a[0], {"names": [], "fns": []}), self.B.get(a[1], {"names": [], "fns": []})
                self.B[a[2]] = {"names": x["names"] + y["names"], "fns": x["fns"] + y["fns"],
                                "durs": list(x.get("durs", [])) + list(y.get("durs", [])), "sr": x.get("sr"),
                                "marked": bool(x.get("marked") or y.get("marked"))}
            elif k == "BSetSR":
                self.B.setdefault(a[0], {"names": [], "fns": []})
                if isinstance(a[1], (int, float)) and a[1] > 0:
                    self.srs.append(a[1])
                    self.B[a[0]]["sr"] = a[1]
            elif k == "ENew":
                self.E[a[0]] = {"chans": {}}
            elif k == "EAddBp":
                import copy as _copy
                snap = _copy.deepcopy(self.B.get(a[2])) or {"names": [], "fns": []}
                snap["reg"] = a[2]
                self.E.setdefault(a[0], {"chans": {}})["chans"][chkey(a[1])] = ("bp", a[1], snap)
            elif k == "EAddArray":
                self.E.setdefault(a[0], {"chans": {}})["chans"][chkey(a[1])] = ("arr", a[1], {"names": [], "fns": [], "sr": a[3] if isinstance(a[3], (int, float)) else None,
                                                                                   "n": sum(int(x[1]) for x in a[2])})
                if isinstance(a[3], (int, float)) and a[3] > 0:
                    self.srs.append(a[3])
            elif k in ("ECopy", "EFromJson"):
                import copy as _copy
                self.E[a[1]] = _copy.deepcopy(self.E.get(a[0], {"chans": {}}))
            elif k == "SNew":
                self.S[a[0]] = {"pos": {}}
            elif k == "SSetAmp":
                self.S.setdefault(a[0], {"pos": {}}).setdefault("amp", {})[chkey(a[1])] = a[2]
            elif k == "SSetSR":
                self.S.setdefault(a[0], {"pos": {}})
                if isinstance(a[1], (int, float)) and a[1] > 0:
                    self.srs.append(a[1])
            elif k == "SAddElement":
                import copy as _copy
                self.S.setdefault(a[0], {"pos": {}})["pos"][a[1]] = ("el", _copy.deepcopy(self.E.get(a[2], {"chans": {}})))
            elif k == "SAddSub":
                self.S.setdefault(a[0], {"pos": {}})["pos"][a[1]] = ("sub", a[2])
            elif k in ("SCopy", "SFromJson"):
                self.S[a[1]] = {"pos": dict(self.S.get(a[0], {"pos": {}})["pos"])}
            elif k == "SAdd":
                x, y = self.S.get(a[0], {"pos": {}})["pos"], self.S.get(a[1], {"pos": {}})["pos"]
                n = len(x)
                self.S[a[2]] = {"pos": {**x, **{(p + n if isinstance(p, int) else p): v for p, v in y.items()}}}
            elif k in ("TVarying", "TLinear"):
                its = a[4] if k == "TVarying" else None
                n = len(its[0]) if its and its[0] else 3
                import copy as _copy
                self.S[a[-1]] = {"pos": {p: ("el", _copy.deepcopy(self.E.get(a[0], {"chans": {}}))) for p in range(1, n + 1)}}
            elif k == "TRepeat":
                self.S[a[-1]] = {"pos": dict(self.S.get(a[0], {"pos": {}})["pos"])}

    def fresh(self, kind):
        d = getattr(self, kind)
        r = max(list(d) + [-1]) + 1
        d[r] = {"names": [], "fns": []} if kind == "B" else ({"chans": {}} if kind == "E" else {"pos": {}})
        if hasattr(self, "ok"):
            self.ok[kind].add(r)          # built by the follow-up itself, from tie-safe values
            self.ok["forge"][kind].add(r)
            self.ok["points"][kind].add(r)
        return r

    def bp_of(self, s, pos, c):
        """Blueprint shape behind sequence position / channel, as far as the program text tells."""
        ent = self.S.get(s, {"pos": {}})["pos"].get(pos)
        if not ent or ent[0] != "el":
            return None
        ch = ent[1]["chans"].get(chkey(c))
        if not ch:
            return None
        return ch[2]


def chkey(c):
    return f"{type(c).__name__}:{c}"


def unique_names(bases):
    """The library's naming rule: the k-th segment sharing a base name is base (k = 1) or base + str(k)."""
    seen, out = {}, []
    for n in bases:
        seen[n] = seen.get(n, 0) + 1
        out.append(n if seen[n] == 1 else f"{n}{seen[n]}")
    return out


def pick_name(rng, b):
    """Mostly a segment name that exists (by the naming rule applied to what the program inserted), sometimes not."""
    names = unique_names((b or {}).get("names", []))
    fns = (b or {}).get("fns", [])
    if "waituntil" in fns and fns.index("waituntil") > 0 and len(fns) == len(names) and rng.random() < 0.4:
        return rng.choice(names[:fns.index("waituntil")])          # a segment in front of a wait: the wait must absorb the edit
    if names and rng.random() < 0.8:
        return rng.choice(names)
    return rng.choice(names + ["ramp", "nosuchsegment"] + [n + "2" for n in names])


def pick_arg(rng, b, name):
    fns = (b or {}).get("fns", [])
    names = (b or {}).get("names", [])
    fn = None
    for f, n in zip(fns, unique_names(names)):
        if n == name:
            fn = f
    al = ARGS.get(fn, ["start", "stop"])
    r = rng.random()
    if r < 0.7 and al:
        return rng.choice(al)
    if r < 0.8:
        return rng.randint(0, 2)
    return rng.choice(["stop", "ampl", "x", "nosucharg", "SR", "dur"])


def some_sr(rng, sh):
    """The LARGEST sample rate the program mentions: every time-like value of a follow-up (durations, delays) is a few
    samples at that rate, so that no object of the program - whatever its own rate - is asked for more than a few
    thousand samples (a duration of 20 samples at 100 Sa/s is 8e11 samples at 4e12 Sa/s)."""
    return max(sh.srs) if sh.srs else 100


ALL_SRS = []          # every sample rate the current program mentions (set by make); durations stay off rounding ties at all of them


def off_ties(d):
    """True when d*SR is at least 0.2 sample away from a rounding tie for every sample rate of the program (the
    implementation multiplies in binary64, the model exactly: at a tie the two may round differently - no property
    quantifies over ties)."""
    for SR in ALL_SRS:
        x = Fraction(d) * Fraction(SR)
        if abs((x - (x.numerator // x.denominator)) - Fraction(1, 2)) < Fraction(1, 5):
            return False
        if abs(x - 1) < Fraction(1, 5):
            return False          # the sub-sample test of changeDuration (dur < 1/SR) is a float comparison at exactly one sample
    return True


def total_off_ties(b):
    """The blueprint's point count round(total duration * SR) is away from a tie (no waituntil, numeric durations)."""
    durs = b.get("durs", [])
    if "waituntil" in b.get("fns", []) or len(durs) != len(b.get("names", [])) or not b.get("sr"):
        return False
    if not all(isinstance(d, (int, float)) and not isinstance(d, bool) for d in durs):
        return False
    x = sum(Fraction(d) for d in durs) * Fraction(b["sr"])
    return abs((x - (x.numerator // x.denominator)) - Fraction(1, 2)) >= Fraction(1, 5)


def durs_off_ties(durs, SR):
    for d in durs:
        if isinstance(d, (int, float)) and not isinstance(d, bool):
            x = Fraction(d) * Fraction(SR)
            if abs((x - (x.numerator // x.denominator)) - Fraction(1, 2)) < Fraction(1, 5) or x < Fraction(9, 5):
                return False
    return True


def delay_safe(rng, SR, ks=(2, 3, 8, 4, 20)):
    """A channel delay of a few whole samples at SR that is also off every rounding tie at the other rates of the
    program (raw arrays are padded at their own rate)."""
    ks = list(ks)
    rng.shuffle(ks)
    for k in ks:
        d = float(Fraction(k) / Fraction(SR))
        if off_ties(d):
            return d
    return 0


def dur_value(rng, SR):
    for _ in range(30):
        n = rng.choice([2, 3, 5, 8, 13, 21])
        f = rng.choice([0, 0, 0.25])
        d = float((Fraction(n) + Fraction(f)) / Fraction(SR))
        if off_ties(d):
            return d
    return float(Fraction(4) / Fraction(SR))


def own_sr(b, default):
    """The blueprint's own sample rate when the program set one."""
    return (b or {}).get("sr") or default


def bad_element(rng, sh, chans, SR):
    """Ops building an element whose channels have different lengths (validation must refuse it)."""
    e = sh.fresh("E")
    ops = [("ENew", e)]
    chans = list(chans)[:3] or [1]
    if len(chans) == 1:
        chans = chans + [99]
    for i, c in enumerate(chans):
        b = sh.fresh("B")
        n = 6 + 4 * i
        ops += [("BNew", b), ("BInsert", b, -1, "ramp", [0, 0.125], float(Fraction(n) / Fraction(SR)), "z"), ("BSetSR", b, SR),
                ("EAddBp", e, c, b)]
    return e, ops


def partial_everywhere(rng, sh, SR, in_sequence):
    """Self-contained fault: two segments sharing a base name but not a function; a replaceeverywhere edit of an
    argument only the first function has changes the first segment and is then rejected on the second.  Observed
    before and after: arrays, description, equality with a copy taken before the call."""
    b, e, cp = sh.fresh("B"), sh.fresh("E"), sh.fresh("E")
    d = float(Fraction(12) / Fraction(SR))
    first = rng.choice(["ramp", "sine"])
    segs = [("ramp", [0, 0.125]), ("sine", [1 / d, 0.125, 0, 0])]
    if first == "sine":
        segs.reverse()
    ops = [("BNew", b)] + [("BInsert", b, -1, f, a, d, "p") for f, a in segs] + [("BSetSR", b, SR), ("ENew", e), ("EAddBp", e, 1, b)]
    arg = "stop" if first == "ramp" else "freq"
    val = 0.25 if first == "ramp" else 2 / d
    if not in_sequence:
        ops += [("OEArrays", e, False), ("OEDescr", e), ("ECopy", e, cp), ("EChangeArg", e, 1, "p", arg, val, True)]
        return ops, [("OEArrays", e, False), ("OEDescr", e), ("OEEq", e, cp), ("OEEq", cp, e)]
    q, qc = sh.fresh("S"), sh.fresh("S")
    ops += [("SNew", q), ("SSetSR", q, SR), ("SAddElement", q, 1, e), ("SSetAmp", q, 1, 2), ("SSetOff", q, 1, 0),
            ("OSForge", q, True, True, False), ("OSDescr", q), ("SCopy", q, qc), ("SElemChangeArg", q, 1, 1, "p", arg, val, True)]
    return ops, [("OSForge", q, True, True, False), ("OSDescr", q), ("OSEq", q, qc), ("OSAwg", q, ("slice", None, None, None))]


def valid_handle_edit(rng, sh):
    """An argument edit through seq.element(pos) that the library accepts (segment and argument exist), or None."""
    cands = []
    for s, v in sh.S.items():
        for pos, ent in v["pos"].items():
            if ent[0] != "el":
                continue
            for ch in ent[1]["chans"].values():
                if ch[0] != "bp" or not ch[2]:
                    continue
                for nm, fn in zip(unique_names(ch[2]["names"]), ch[2]["fns"]):
                    for arg in ARGS.get(fn, []):
                        if fn in ("ramp", "ua", "ub2", "uc") or arg in ("ampl", "off", "offset"):
                            cands.append((s, pos, ch[1], nm, arg))
    if not cands:
        return None
    s, pos, c, nm, arg = rng.choice(cands)
    return ("SElemChangeArg", s, pos, c, nm, arg if rng.random() < 0.7 else ARGS_INDEX.get(arg, arg), rng.choice(SMALL[1:]), False)


ARGS_INDEX = {"start": 0, "stop": 1, "x": 0, "a": 0, "b": 1, "p": 0, "q": 1}


SEQ_KINDS = ["valid_handle", "handle_arg", "handle_dur", "bad_add", "bad_sub", "set_absent", "bad_filter", "sequencing", "rate",
             "amp", "delay", "partial_seq", "copy_seq", "failed_export", "failed_forge", "seq_add", "set_filter",
             "tool_repeat", "handle_addbp", "handle_flags", "handle_bad_array", "break_all_add", "reorder_element",
             "handle_new_array", "set_name", "failing_repeat"]
EL_KINDS = ["el_arg", "el_dur", "el_overwrite", "partial_el", "copy_el", "wrap_seq", "tool_linear", "el_bad_array",
            "el_overwrite_sweep", "failing_sweep", "readd_after_sr"]
BP_KINDS = ["bp_arg", "bp_dur", "bp_insert", "bp_remove", "bp_burst", "bp_move_edit"]
ALL_KINDS = SEQ_KINDS + EL_KINDS + BP_KINDS


def tail(rng, sh, extra_obs, first=False, force=None, base_obs=()):
    """A few further API calls on what the program has built (observations worth adding go to extra_obs).  `force`:
    the kind of the first call (the caller cycles through ALL_KINDS so that every run contains every kind); returns
    None when the program has nothing that kind applies to."""
    ops = []
    if force == "valid_handle" or (force is None and first and rng.random() < 0.5):
        # the commonest stateful pattern: observe / export, edit one argument through the live element handle, observe again
        op = valid_handle_edit(rng, sh)
        if op:
            s = op[1]
            if rng.random() < 0.5:
                # a channel delay declared and the sequence forged / exported before the edit (what is remembered from a
                # delayed forge must not survive the edit)
                b0 = sh.bp_of(s, op[2], op[3])
                ops += [("SSetDelay", s, op[3], delay_safe(rng, own_sr(b0, some_sr(rng, sh)))),
                        ("OSForge", s, True, True, False), rng.choice([("OSSeqx", s, False), ("OSAwg", s, ("slice", None, None, None)), ("OSDescr", s)])]
            ops.append(op)
            # the first query after the edit is an export when the program has one (a query such as `channels` or `forge`
            # may itself refresh what an export remembers)
            exports = [o for o in base_obs if o[0] in ("OSSeqx", "OSAwg") and o[1] == s]
            if exports and rng.random() < 0.8:
                ops.append(rng.choice(exports))
            extra_obs += [("OSDescr", s), ("OSForge", s, True, True, False)]
            if rng.random() < 0.7:
                return ops
        elif force == "valid_handle":
            return None
        force = None
    seqs = [s for s, v in sh.S.items() if v["pos"] and s in sh.ok["S"]]
    els = [e for e, v in sh.E.items() if v["chans"] and e in sh.ok["E"]]
    bps = [b for b, v in sh.B.items() if v["names"]]
    synced = [0]

    def sync():
        # what the calls appended so far did to rates and contents is visible to the next call's choice of values (a
        # duration chosen for a channel must be chosen at the rate the channel has NOW); only ops whose replay on the
        # shape is idempotent - the kinds that insert / remove segments keep the shape up to date themselves
        for op in ops[synced[0]:]:
            if op[0] in ("BSetSR", "SSetSR", "EAddBp", "SAddElement", "SAddSub", "ECopy", "SCopy", "BChangeDur", "SSetAmp"):
                sh.apply(op)
        synced[0] = len(ops)

    for _i in range(rng.randint(1, 3)):
        sync()
        kinds = []
        if seqs:
            kinds += [x for x in SEQ_KINDS if x != "valid_handle"]
        if els:
            kinds += EL_KINDS
        if bps:
            kinds += BP_KINDS
        if not kinds:
            return ops or None
        if force is not None:
            if force not in kinds:
                return None
            k, force = force, None
        else:
            k = rng.choice(kinds)
        if k == "bp_move_edit":
            # a segment moved (removed and re-inserted elsewhere, so the segment count is what it was) between two
            # name-addressed edits: anything remembered about positions by name or by count is stale afterwards
            r = rng.choice(bps)
            b = sh.B[r]
            names = unique_names(b["names"])
            SR = own_sr(b, some_sr(rng, sh))
            if len(names) >= 2 and len(b.get("durs", [])) == len(names):
                i = rng.randrange(len(names))
                j = rng.choice([x for x in range(len(names)) if x != i])

                def edit(nm):
                    kk = rng.choice(["mark", "mark", "arg", "dur", "unmark"])
                    if kk == "mark":
                        return ("BSetSegMarker", r, nm, [rng.choice([0, dur_value(rng, SR)]), dur_value(rng, SR)], rng.choice([1, 2]))
                    if kk == "unmark":
                        return ("BRemoveSegMarker", r, nm, rng.choice([1, 2]))
                    if kk == "arg":
                        return ("BChangeArg", r, nm, pick_arg(rng, b, nm), rng.choice(SMALL), False)
                    return ("BChangeDur", r, nm, dur_value(rng, SR), False)
                seq_ops = [edit(names[i]), edit(names[j]), ("BRemove", r, names[i])]
                fn = b["fns"][i]
                args = {"ramp": [0.125, 0], "sine": [1, 0.125, 0, 0], "ua": [0.25], "ub2": [0.125, 0], "uc": [0.125, 0, 0, 0],
                        "gaussian": [0.125, 1, 0, 0], "gaussian_smooth_cutoff": [0.125, 1, 0, 0], "waituntil": [1]}.get(fn, [0, 0])
                for op in seq_ops:
                    ops.append(op)
                    sh.apply(op)
                at = rng.choice([0, len(names) - 1, -1])
                ins = ("BInsert", r, at, fn if fn in ARGS and fn != "waituntil" else "ramp",
                       args if fn in ARGS and fn != "waituntil" else [0.125, 0], dur_value(rng, SR), b["names"][0] if rng.random() < 0.3 else names[i].rstrip("0123456789") or "q")
                ops.append(ins)
                sh.apply(ins)
                for nm in rng.sample(unique_names(sh.B[r]["names"]), min(2, len(sh.B[r]["names"]))):
                    ops.append(edit(nm))
                extra_obs += [("OBDescr", r), ("OBForge", r)]
        elif k in ("partial_el", "partial_seq"):
            o, ob = partial_everywhere(rng, sh, some_sr(rng, sh), k == "partial_seq")
            ops += o
            extra_obs += ob
        elif k in ("copy_el", "copy_seq"):
            if k == "copy_el":
                e = rng.choice(els)
                cp = sh.fresh("E")
                ops.append(("ECopy", e, cp))
                extra_obs += [("OEEq", e, cp), ("OEEq", cp, e)]
            else:
                q = rng.choice(seqs)
                cp = sh.fresh("S")
                ops.append(("SCopy", q, cp))
                extra_obs += [("OSEq", q, cp), ("OSDescr", cp)]
        elif k == "wrap_seq":
            # a sequence around an existing element (channel settings, possibly a delay and a filter compensation), observed;
            # later rounds can edit the stored element through its handle
            e = rng.choice(els)
            q = sh.fresh("S")
            SR = some_sr(rng, sh)
            for v in sh.E[e]["chans"].values():
                if v[0] == "bp" and (v[2] or {}).get("sr"):
                    SR = v[2]["sr"]          # the element's own rate: delays of whole samples
            chs = [v[1] for v in sh.E[e]["chans"].values()]
            ops += [("SNew", q), ("SSetSR", q, SR), ("SAddElement", q, 1, e)]
            for c in chs:
                ops += [("SSetAmp", q, c, 4), ("SSetOff", q, c, 0)]
                if rng.random() < 0.5:
                    ops.append(("SSetDelay", q, c, delay_safe(rng, SR)))
                if rng.random() < 0.3:
                    ops.append(("SSetFilter", q, c, rng.choice(["HP", "LP"]), 1, SR * 0.2, None))
            for op in ops[-(3 + 4 * len(chs)):]:
                if op[0] in ("SNew", "SSetSR", "SAddElement", "SSetAmp"):
                    sh.apply(op)
            ops.append(("OSForge", q, True, True, False))
            extra_obs += [("OSForge", q, True, True, False), ("OSDescr", q), ("OSCheck", q)]
            seqs.append(q)
        elif k == "tool_linear":
            e = rng.choice(els)
            ch = rng.choice(list(sh.E[e]["chans"].values()))
            b = ch[2] if ch[0] == "bp" else None
            nm = pick_name(rng, b)
            q = sh.fresh("S")
            ops += [("OESR", e), ("TLinear", e, ch[1], nm, pick_arg(rng, b, nm), 0, 0.25, 0.125, q)]
            extra_obs += [("OSSR", q), ("OSDescr", q), ("OSCheck", q)]
        elif k == "bp_burst":
            r = rng.choice(bps)
            b = sh.B[r]
            SR = own_sr(b, some_sr(rng, sh))
            for _j in range(rng.randint(3, 6)):
                nm = pick_name(rng, b)
                kk = rng.choice(["mark", "mark", "unmark", "remove", "insert", "insert", "arg", "dur"])
                if kk == "mark":
                    op = ("BSetSegMarker", r, nm, [rng.choice([0, dur_value(rng, SR)]), dur_value(rng, SR)], rng.choice([1, 2]))
                elif kk == "unmark":
                    op = ("BRemoveSegMarker", r, nm, rng.choice([1, 2]))
                elif kk == "remove":
                    op = ("BRemove", r, nm)
                elif kk == "insert":
                    op = ("BInsert", r, rng.choice([0, 1, 2, -1]), rng.choice(["ramp", "ramp", "sine"]),
                          rng.choice([[0.125, 0], [0, 0.25]]), dur_value(rng, SR), rng.choice([None, nm.rstrip("0123456789") or "q", "q"]))
                    if op[3] == "sine":
                        op = op[:4] + ([1 / op[5], 0.125, 0, 0],) + op[5:]
                elif kk == "arg":
                    op = ("BChangeArg", r, nm, pick_arg(rng, b, nm), rng.choice(SMALL), rng.random() < 0.35)
                else:
                    op = ("BChangeDur", r, nm, dur_value(rng, SR), rng.random() < 0.3)
                ops.append(op)
                Shape.apply(sh, op)
            extra_obs += [("OBDescr", r), ("OBForge", r)]
        elif k in ("handle_arg", "handle_dur", "bad_add", "bad_sub", "set_absent", "bad_filter", "sequencing", "rate", "amp", "delay", "failed_export", "failed_forge", "seq_add", "set_filter",
                   "tool_repeat", "handle_addbp", "handle_flags", "handle_bad_array", "break_all_add", "reorder_element",
                   "handle_new_array", "set_name", "failing_repeat"):
            s = rng.choice(seqs)
            poss = list(sh.S[s]["pos"])
            pos = rng.choice(poss)
            ent = sh.S[s]["pos"][pos]
            chans = [v[1] for v in ent[1]["chans"].values()] if ent[0] == "el" else []
            c = rng.choice(chans) if chans else 1
            b = sh.bp_of(s, pos, c)
            SR = own_sr(b, some_sr(rng, sh))          # the rate of the addressed entry: delays / durations of whole samples there
            if k == "handle_arg":
                nm = pick_name(rng, b)
                ops.append(("SElemChangeArg", s, pos, c, nm, pick_arg(rng, b, nm), rng.choice(SMALL), rng.random() < 0.35))
            elif k == "handle_dur":
                nm = pick_name(rng, b)
                ops.append(("SElemChangeDur", s, pos, c, nm, rng.choice([dur_value(rng, own_sr(b, SR))] * 4 + [0, -1.0, "x"]), rng.random() < 0.3))
            elif k == "bad_add":
                e, o = bad_element(rng, sh, chans, SR)
                at = rng.choice([pos, pos, max([p for p in poss if isinstance(p, int)] + [0]) + 1])
                ops += o + [("SAddElement", s, at, e)]
            elif k == "bad_sub":
                others = [x for x in sh.S if x != s]
                if rng.random() < 0.5 or not others:
                    t = sh.fresh("S")
                    e0 = rng.choice(els) if els else None
                    ops += [("SNew", t), ("SSetSR", t, SR * 2)] + ([("SAddElement", t, 1, e0)] if e0 is not None else [])
                else:
                    t = rng.choice(others)          # possibly one that itself holds a subsequence (nesting is refused)
                ops.append(("SAddSub", s, rng.choice([pos, pos, len(poss) + 1]), t))
            elif k == "set_absent":
                absent = rng.choice([98, "zz"])
                ops.append(("SSetDelay", s, absent, delay_safe(rng, SR, ks=(300000, 400000, 300002))))
                if rng.random() < 0.5:
                    ops.append(rng.choice([("SSetAmp", s, absent, 1), ("SSetOff", s, absent, 0.125)]))
                extra_obs += [("OSForge", s, True, True, False), ("OSAwg", s, ("slice", None, None, None)), ("OSSeqx", s, False)]
            elif k == "bad_filter":
                ops.append(rng.choice([("SSetFilter", s, c, "XX", 1, SR * 0.2, None),
                                       ("SSetFilter", s, c, "HP", 1, SR * 0.2, 1 / (SR * 0.2)),
                                       ("SSetFilter", s, c, "LP", None, SR * 0.2, None)]))
            elif k == "sequencing":
                ops.append(("SSetSequencing", s, pos, rng.choice(["twait", "nrep", "jump_target", "goto"]), rng.choice([0, 1, 2, 3])))
            elif k == "rate":
                ops.append(("SSetSR", s, rng.choice([SR, SR * 2])))
            elif k == "amp":
                ops.append(("SSetAmp", s, c, rng.choice([0.0009765625, 4, 4, 8])))
                extra_obs += [("OSSeqx", s, True), ("OSAwg", s, ("slice", None, None, None))]
            elif k == "failed_export":
                # an export that is refused half-way (amplitude far too small for the voltages), the cause repaired, a
                # delay changed, and everything observed again
                old = sh.S[s].get("amp", {}).get(chkey(c), 4)
                exps = [("OSSeqx", s, True), ("OSSeqx", s, False), ("OSAwg", s, ("slice", None, None, None))]
                rng.shuffle(exps)
                ops += [("SSetAmp", s, c, 0.0009765625)] + exps + [("SSetAmp", s, c, old),
                        ("SSetDelay", s, c, delay_safe(rng, SR))]
                extra_obs += [("OSSeqx", s, False), ("OSSeqx", s, True), ("OSForge", s, True, True, False)]
                if rng.random() < 0.5:
                    # ... and the sequence made inconsistent afterwards (a further channel at one position only): the gate
                    # must notice, whatever the refused export left behind
                    nb = sh.fresh("B")
                    ops += [("BNew", nb), ("BInsert", nb, -1, "ramp", [0, 0.125], float(Fraction(8) / Fraction(SR)), "h"),
                            ("BSetSR", nb, SR), ("SElemAddBp", s, pos, rng.choice([97, "hh"]), nb)]
                    extra_obs += [("OSCheck", s), ("OSChannels", s)]
            elif k == "seq_add":
                others = [x for x in sh.S if sh.S[x]["pos"]]
                t = rng.choice(others)
                u = sh.fresh("S")
                a1, a2 = (s, t) if rng.random() < 0.5 else (t, s)
                ops.append(("SAdd", a1, a2, u))
                sh.apply(("SAdd", a1, a2, u))
                if rng.random() < 0.5:
                    # re-declare a setting on the sum: the operands must not see it
                    ops.append(("SSetFilter", u, c, rng.choice(["HP", "LP"]), rng.choice([1, 2]), SR * rng.choice([0.1, 0.3]), None))
                extra_obs += [("OSDescr", u), ("OSLen", u), ("OSDescr", a1), ("OSDescr", a2), ("OSForge", a2, True, True, False)]
            elif k == "handle_addbp":
                # seq.element(pos).addBluePrint: a further channel (the entries then define different channel sets) or an
                # existing one replaced, at the same or another rate - after the sequence was already checked / forged
                nb = sh.fresh("B")
                SR2 = rng.choice([SR, SR, SR * 2])
                ops += [("BNew", nb), ("BInsert", nb, -1, "ramp", [0, 0.125], float(Fraction(8) / Fraction(SR2)), "h"),
                        ("BSetSR", nb, SR2), ("OSCheck", s), ("SElemAddBp", s, pos, rng.choice([c, 97, "hh"]), nb)]
                extra_obs += [("OSCheck", s), ("OSChannels", s), ("OSForge", s, False, False, False), ("OSDescr", s)]
            elif k == "reorder_element":
                # the entry at a position replaced by an element with the same blueprints listed in the opposite channel
                # order (after delays were declared and the sequence forged): nothing positional may be remembered
                if ent[0] == "el":
                    chs2 = [v for v in ent[1]["chans"].values()]
                    if len(chs2) >= 2 and all(v[0] == "bp" and v[2].get("reg") is not None and
                                               sh.B.get(v[2]["reg"], {}).get("names") == v[2]["names"] for v in chs2):
                        e2 = sh.fresh("E")
                        ops += [("SSetDelay", s, chs2[0][1], delay_safe(rng, own_sr(chs2[0][2], SR))),
                                ("OSForge", s, True, True, False), ("ENew", e2)]
                        for v in reversed(chs2):
                            ops.append(("EAddBp", e2, v[1], v[2]["reg"]))
                        ops.append(("SAddElement", s, pos, e2))
                        extra_obs += [("OSForge", s, True, True, False), ("OSAwg", s, ("slice", None, None, None)), ("OSChannels", s)]
            elif k == "handle_new_array":
                # a raw-array channel given new samples of the same length through the handle, between two exports
                arrs = [v for v in ent[1]["chans"].values() if v[0] == "arr"] if ent[0] == "el" else []
                if arrs:
                    c, b = arrs[0][1], arrs[0][2]
                if b is not None and b.get("n") and b["n"] <= 6000:
                    n = b["n"]
                    w = [(rng.choice([0.125, -0.125, 0.0625]), n // 2), (rng.choice([0.25, 0, -0.0625]), n - n // 2)]
                    ops += [rng.choice([("OSAwg", s, ("slice", None, None, None)), ("OSSeqx", s, False), ("OSForge", s, True, True, False)]),
                            ("SElemAddArray", s, pos, c, w, own_sr(b, SR), [("m1", [(1, 1), (0, n - 1)])] if rng.random() < 0.5 else [])]
                    extra_obs += [("OSAwg", s, ("slice", None, None, None)), ("OSForge", s, True, True, False)]
            elif k == "set_name":
                ops.append(("SSetName", s, rng.choice(["myseq", "x", "seq_1"])))
                cp = sh.fresh("S")
                ops.append(("SCopy", s, cp))
                extra_obs += [("OSDescr", s), ("OSDescr", cp)] + ([] if has_arrays_shape(sh) else [("OSEq", s, cp)])
            elif k == "failing_repeat":
                # repeatAndVarySequence whose second step is refused (a duration of zero): the input sequence must be what it was
                nm = pick_name(rng, b)
                q = sh.fresh("S")
                d_ok = dur_value(rng, own_sr(b, SR))
                ops += [("OSDescr", s), ("TRepeat", s, [pos], [c], [nm], ["duration"], [[d_ok, 0, d_ok]], q)]
                extra_obs += [("OSDescr", s), ("OSLen", q), ("OSForge", s, True, True, False)]
            elif k == "break_all_add":
                # every element of the sequence made invalid through its handle (one channel gets another duration), then
                # the sequence is used as an operand of + in both orders and queried
                did = 0
                for p2, ent2 in sh.S[s]["pos"].items():
                    if ent2[0] != "el":
                        continue
                    bch = [v for v in ent2[1]["chans"].values() if v[0] == "bp" and v[2] and v[2]["names"]]
                    if len(ent2[1]["chans"]) >= 2 and bch:
                        v = bch[0]
                        nm2 = unique_names(v[2]["names"])[-1]
                        ops.append(("SElemChangeDur", s, p2, v[1], nm2, dur_value(rng, own_sr(v[2], SR)) * 3, False))
                        did += 1
                others = [x for x in sh.S if sh.S[x]["pos"]]
                t = rng.choice(others)
                u, u2 = sh.fresh("S"), sh.fresh("S")
                ops += [("OSCheck", s), ("SAdd", s, t, u), ("SAdd", t, s, u2)]
                extra_obs += [("OSLen", u), ("OSLen", u2), ("OSCheck", s), ("OSChannels", s)]
            elif k == "handle_bad_array":
                # addArray with a marker array of another length than the waveform, on an existing channel: refused, and
                # the channel keeps what it held
                n = rng.choice([6, 10])
                ops.append(("SElemAddArray", s, pos, c, [(0.125, n)], SR, [("m1", [(0, n - 1)])] if rng.random() < 0.8 else [("m1", [(1, n)])]))
                extra_obs += [("OSCheck", s), ("OSPoints", s), ("OSDescr", s)]
            elif k == "handle_flags":
                ops.append(("SElemAddFlags", s, pos, c, [rng.choice([0, 1, 2, 3, 4, "", "H", "L", "T", "P", 7]) for _ in range(4)]))
                extra_obs += [("OSSeqx", s, True), ("OSDescr", s)]
            elif k == "set_filter":
                ops.append(("SSetFilter", s, c, rng.choice(["HP", "LP"]), rng.choice([1, 2]), SR * rng.choice([0.1, 0.3]), None)
                           if rng.random() < 0.6 else ("SSetFilter", s, c, rng.choice(["HP", "LP"]), 1, None, 1 / (SR * 0.25)))
                extra_obs += [("OSForge", s, True, True, False)]
            elif k == "tool_repeat":
                # repeatAndVarySequence with list arguments of mismatched lengths (must be refused) or matching ones
                nm = pick_name(rng, b)
                q = sh.fresh("S")
                ar = pick_arg(rng, b, nm)
                shape = rng.choice(["ok", "iters_short", "iters_long", "names_short", "ragged"])
                poss2, chs2, nms2, ars2 = [pos, pos], [c, c], [nm, nm], [ar, ar]
                its = [[0, 0.125], [0.125, 0.25]]
                if shape == "iters_short":
                    its = its[:1]
                elif shape == "iters_long":
                    its = its + [[0, 0]]
                elif shape == "names_short":
                    nms2 = nms2[:1]
                elif shape == "ragged":
                    its = [[0, 0.125], [0.125]]
                ops.append(("TRepeat", s, poss2, chs2, nms2, ars2, its, q))
                extra_obs += [("OSLen", q), ("OSDescr", q)]
            elif k == "failed_forge":
                # a segment of one sample (accepted by changeDuration, refused by the forger), forge, repair, forge
                names = unique_names((b or {}).get("names", []))
                if names and len((b or {}).get("durs", [])) == len(names):
                    i = rng.randrange(len(names))
                    if isinstance(b["durs"][i], (int, float)):
                        ops += [("SSetDelay", s, c, delay_safe(rng, own_sr(b, SR))),
                                ("SElemChangeDur", s, pos, c, names[i], float(Fraction(5, 4) / Fraction(own_sr(b, SR))), False),
                                ("OSForge", s, True, True, False), ("OSDescr", s),
                                ("SElemChangeDur", s, pos, c, names[i], b["durs"][i], False)]
                        extra_obs += [("OSForge", s, True, True, False), ("OSPoints", s)]
            elif k == "delay":
                ops.append(("SSetDelay", s, c, rng.choice([0, delay_safe(rng, SR)])))
                extra_obs += [("OSSeqx", s, rng.random() < 0.5), ("OSForge", s, True, True, False)]
        elif k == "el_overwrite_sweep":
            # the element queried, then every channel replaced by a blueprint at another sample rate (the element stays
            # valid, at the new rate), then swept: the sweep must run at the element's current rate
            e = rng.choice(els)
            SR = some_sr(rng, sh)
            for v in sh.E[e]["chans"].values():
                if v[0] == "bp" and (v[2] or {}).get("sr"):
                    SR = v[2]["sr"]
            SR2 = SR * rng.choice([2, 4, 0.5])
            ops += [("OESR", e), ("OEPoints", e)]
            chs = [v[1] for v in sh.E[e]["chans"].values()]
            for c2 in chs:
                nb = sh.fresh("B")
                ops += [("BNew", nb), ("BInsert", nb, -1, "ramp", [0, 0.125], float(Fraction(8) / Fraction(SR2)), "w"),
                        ("BSetSR", nb, SR2), ("EAddBp", e, c2, nb)]
            q = sh.fresh("S")
            ops += [("OESR", e), ("TLinear", e, chs[0], "w", rng.choice(["start", "stop", 0]), 0, 0.25, 0.125, q)]
            extra_obs += [("OSSR", q), ("OSCheck", q), ("OSDescr", q), ("OESR", e)]
        elif k == "failing_sweep":
            # a sweep that is refused part-way (a duration that becomes zero at a later step): the base element must be
            # what it was, and sweep again correctly
            e = rng.choice(els)
            bch = [v for v in sh.E[e]["chans"].values() if v[0] == "bp" and v[2] and v[2]["names"]]
            if bch:
                v = rng.choice(bch)
                nm = rng.choice(unique_names(v[2]["names"]))
                d_ok = dur_value(rng, own_sr(v[2], some_sr(rng, sh)))
                q, q2 = sh.fresh("S"), sh.fresh("S")
                ops += [("OEDescr", e), ("OEArrays", e, False)]
                if rng.random() < 0.5:
                    ops.append(("TVarying", e, [v[1]], [nm], ["duration"], [[d_ok, d_ok * 2, 0]], q))
                else:
                    ops.append(("TLinear", e, v[1], nm, "duration", d_ok * 2, 0, d_ok, q))
                ops += [("OEDescr", e), ("OEArrays", e, False),
                        ("TVarying", e, [v[1]], [nm], [pick_arg(rng, v[2], nm)], [[0.125, 0.25]], q2)]
                extra_obs += [("OEDescr", e), ("OSDescr", q2), ("OSLen", q), ("OEArrays", e, False)]
        elif k == "readd_after_sr":
            # the blueprint a channel was filled from gets another sample rate and is added to the same channel again
            e = rng.choice(els)
            bch = [v for v in sh.E[e]["chans"].values() if v[0] == "bp" and v[2] and v[2].get("reg") is not None and v[2].get("sr")
                   and sh.B.get(v[2]["reg"], {}).get("names") == v[2]["names"] and not sh.B[v[2]["reg"]].get("marked")
                   and "waituntil" not in sh.B[v[2]["reg"]].get("fns", [])]          # a wait target is a time too: 1.8 s is 22.5 samples at 12.5 Sa/s
            if bch:
                v = rng.choice(bch)
                # a new rate at which every duration of that blueprint stays well away from a rounding tie (durations made
                # for 100 Sa/s are full of half samples at 50 Sa/s) and above one sample
                cands = [f for f in (2, 0.5, 4, 3) if durs_off_ties(sh.B[v[2]["reg"]].get("durs", []), v[2]["sr"] * f)]
                if cands:
                    ops += [("OEValidate", e), ("BSetSR", v[2]["reg"], v[2]["sr"] * rng.choice(cands[:2])), ("EAddBp", e, v[1], v[2]["reg"])]
                    extra_obs += [("OEValidate", e), ("OESR", e), ("OEPoints", e), ("OEDescr", e)]
        elif k == "el_bad_array":
            e = rng.choice(els)
            ch = rng.choice(list(sh.E[e]["chans"].values()))
            n = rng.choice([6, 10])
            SR = some_sr(rng, sh)
            ops.append(("EAddArray", e, ch[1], [(0.125, n)], SR, [("m2", [(0, n + 1)])] if rng.random() < 0.8 else [("m2", [(1, n)])]))
            extra_obs += [("OEPoints", e), ("OEDescr", e), ("OEArrays", e, False)]
        elif k in ("el_arg", "el_dur", "el_overwrite"):
            e = rng.choice(els)
            ch = rng.choice(list(sh.E[e]["chans"].values()))
            b = ch[2] if ch[0] == "bp" else None
            SR = some_sr(rng, sh)
            nm = pick_name(rng, b)
            if k == "el_arg":
                ops.append(("EChangeArg", e, ch[1], nm, pick_arg(rng, b, nm), rng.choice(SMALL), rng.random() < 0.35))
            elif k == "el_dur":
                ops.append(("EChangeDur", e, ch[1], nm, rng.choice([dur_value(rng, own_sr(b, SR))] * 3 + [0, "x"]), rng.random() < 0.3))
            else:
                nb = sh.fresh("B")
                SR2 = rng.choice([SR, SR * 2])
                ops += [("BNew", nb), ("BInsert", nb, -1, "ramp", [0, 0.125], float(Fraction(8) / Fraction(SR2)), "w"),
                        ("BSetSR", nb, SR2), ("EAddBp", e, ch[1], nb)]
        else:
            r = rng.choice(bps)
            b = sh.B[r]
            SR = own_sr(b, some_sr(rng, sh))
            nm = pick_name(rng, b)
            if k == "bp_arg":
                ops.append(("BChangeArg", r, nm, pick_arg(rng, b, nm), rng.choice(SMALL), rng.random() < 0.35))
            elif k == "bp_dur":
                ops.append(("BChangeDur", r, nm, rng.choice([dur_value(rng, SR)] * 3 + [0, "x"]), rng.random() < 0.3))
            elif k == "bp_insert":
                ops.append(("BInsert", r, rng.choice([0, 1, -1]), "ramp", [0.125, 0], dur_value(rng, SR), rng.choice([None, nm.rstrip("0123456789") or "q"])))
                sh.apply(ops[-1])
            else:
                ops.append(("BRemove", r, nm))
                sh.apply(ops[-1])
    sync()
    return ops


FORGING = ("OBForge", "OEArrays", "OSForge", "OSAwg", "OSSeqx", "OEPoints", "OSPoints")


def forge_safe(prog, sh):
    """May a follow-up forge what the program built?  Only when the program itself forges something (programs that
    only describe - C05's histories - use durations of seconds at GSa/s rates) and no segment is longer than 200 000
    samples at the largest rate around."""
    if not any(op[0] in COUNTING for op in prog):
        return False
    top = max(sh.srs) if sh.srs else 1
    for op in prog:
        if op[0] == "BInsert" and isinstance(op[5], (int, float)) and not isinstance(op[5], bool) and op[5] * top > 200000:
            return False
        if op[0] in ("BChangeDur", "EChangeDur") and isinstance(op[-2], (int, float)) and not isinstance(op[-2], bool) and op[-2] * top > 200000:
            return False
    return True


def has_arrays_shape(sh):
    return any(v[0] == "arr" for e in sh.E.values() for v in e["chans"].values())


def has_arrays(prog):
    return any(op[0] in ("EAddArray", "SElemAddArray") for op in prog)


def huge(prog):
    """Programs with very long waveforms (tens of thousands of samples) are left to their own generators."""
    for op in prog:
        if op[0] == "EAddArray" and sum(int(c) for _v, c in op[3]) > 5000:
            return True
        if op[0] == "BInsert" and isinstance(op[5 - 1], (int, float)) and False:
            return True
    return False


def make(rng, cases, n, max_prog=90):
    """-> up to n follow-up cases built on randomly chosen base cases with moderate programs.  The kind of the first
    appended call cycles through ALL_KINDS (stratified: every run contains every kind its programs admit)."""
    out = []
    pool = [c for c in cases if not c.get("corpus") and len(c["prog"]) <= max_prog and len(repr(c["prog"])) < 12000
            and not huge(c["prog"]) and not any(op[0] in ("HArrayArgs",) for op in c["prog"])]
    rng.shuffle(pool)
    if not pool:
        return out
    # the commonest stateful pattern (observe, edit through the handle, observe again) gets several slots per cycle
    kinds = [(k, 0) for k in ALL_KINDS] + [("valid_handle", i) for i in (1, 2, 3, 4, 5)] + [("failed_export", 1), ("failed_forge", 1), ("reorder_element", 1), ("handle_new_array", 1),
                                                                                            ("failing_sweep", 1), ("readd_after_sr", 1)]
    rng.shuffle(kinds)
    used = {k: 0 for k in kinds}
    tries = 0
    while len(out) < n and tries < 6 * n:
        c = pool[tries % len(pool)]
        tries += 1
        prog = [tuple(op) for op in c["prog"]]
        obs = [op for op in prog if op[0].startswith("O")]
        if not obs:
            continue
        if len(obs) > 10:
            keep = sorted(rng.sample(range(len(obs)), 10))
            obs = [o for i, o in enumerate(obs) if i in keep]
        sh = Shape(prog)
        sh.ok = counted_registers(prog)
        if sh.srs and max(sh.srs) > 64 * min(sh.srs):
            continue          # programs mixing very different rates: a few samples at one rate are millions at another
        del ALL_SRS[:]
        ALL_SRS.extend(set(sh.srs) | {x * 2 for x in sh.srs})
        new = list(prog)
        safe = forge_safe(prog, sh)
        base_regs = {"B": max(list(sh.B) + [-1]) + 1, "E": max(list(sh.E) + [-1]) + 1, "S": max(list(sh.S) + [-1]) + 1}
        added = 0
        pre_obs = []
        if not any(v["chans"] for v in sh.E.values()) and safe and rng.random() < 0.6:
            # programs about blueprints only: an element around one of them (a blueprint that has its sample rate)
            cand = [r for r, v in sh.B.items() if v["names"] and v.get("sr") and r in sh.ok["B"] and total_off_ties(v)]
            if cand:
                r = rng.choice(cand)
                e = sh.fresh("E")
                w = [("ENew", e), ("EAddBp", e, rng.choice([1, 2, "A"]), r)]
                for op in w:
                    sh.apply(op)
                new += w
                obs = obs + [("OEDescr", e)] + ([("OEArrays", e, False)] if safe else [])
        if any(v["chans"] and r in sh.ok["E"] for r, v in sh.E.items()) and not any(v["pos"] and r in sh.ok["S"] for r, v in sh.S.items()) and safe and rng.random() < 0.6:
            # programs about blueprints / elements only: put a sequence around one of their elements first (observed
            # once), so that the sequence-level kinds - handles, faults, exports - apply to them as well
            w = tail(rng, sh, pre_obs, force="wrap_seq")
            if w:
                for op in w:
                    if op[0] in ("SNew", "SSetSR", "SAddElement", "SSetAmp"):
                        sh.apply(op)
                new += w
                obs = obs + [o for o in pre_obs if o not in obs]
        has_s = any(v["pos"] and r in sh.ok["S"] for r, v in sh.S.items())
        has_e = any(v["chans"] and r in sh.ok["E"] for r, v in sh.E.items())
        has_b = any(v["names"] for v in sh.B.values())
        app = [k for k in kinds if (k[0] in SEQ_KINDS and has_s) or (k[0] in EL_KINDS and has_e) or (k[0] in BP_KINDS and has_b)]
        if not app:
            continue
        slot = min(app, key=lambda k: used[k])          # the applicable kind used least so far
        used[slot] += 1
        want = slot[0]
        hold_p = 0.8 if want in ("valid_handle", "handle_arg", "handle_dur", "handle_addbp", "handle_flags", "failed_forge") else 0.35
        if sh.S and rng.random() < hold_p:
            # element handles fetched before the program's first observation and kept: later edits through them happen
            # without any further `element()` call
            first = next(i for i, op in enumerate(new) if op[0].startswith("O"))
            new.insert(first, ("HHoldHandles",))
        for _round in range(rng.randint(1, 2)):
            extra_obs = []
            t = tail(rng, sh, extra_obs, first=_round == 0, force=want if _round == 0 else None, base_obs=obs)
            if not t:
                break
            added += len(t)
            for op in t:
                if op[0] in ("BNew", "ENew", "SNew", "EAddBp", "SAddElement", "SAddSub", "ECopy", "SCopy", "BSetSR", "SSetSR"):
                    sh.apply(op)
            if not safe:
                # nothing of this program may be forged: keep only the describing observations, also inside the tail
                # (objects the follow-up builds itself sit in fresh registers and stay forgeable)
                def own(o):
                    # only the two self-contained recipes build objects (in fresh registers) that owe nothing to the
                    # program's own blueprints; a wrapper around a base blueprint is as unforgeable as the blueprint
                    return want in ("partial_el", "partial_seq") and _round == 0 and o[1] >= base_regs[o[0][1]]
                extra_obs = [o for o in extra_obs if o[0] not in FORGING or own(o)]
                t = [o for o in t if o[0] not in FORGING or own(o)]
                t = [o for o in t if not (o[0] in ("SAddElement",) and o[1] >= base_regs["S"] and o[3] < base_regs["E"])]
            obs = obs + [o for o in extra_obs if o not in obs]
            if has_arrays(new + t):
                # `==` on objects holding raw arrays is numpy's business (it raises or not depending on how far the dict
                # comparison gets; C20 restricts `==` to blueprint channels): not re-observed once the objects were edited
                obs = [o for o in obs if o[0] not in ("OSEq", "OEEq")]
                t = [o for o in t if o[0] not in ("OSEq", "OEEq")]
            # every object's description last: it is what lets the driver recognise a wait target that coincides with the
            # elapsed time up to float dust (lang.wait_dust) after an edit of a duration
            descr = [("OSDescr", r) for r in sorted(sh.S)] + [("OEDescr", r) for r in sorted(sh.E)] + [("OBDescr", r) for r in sorted(sh.B)]
            def countable(o):
                if o[0] in FORGING[:5]:
                    return o[1] in sh.ok["forge"][o[0][1]] and (o[0][1] != "S" or o[1] in sh.ok["points"]["S"])
                if o[0] in POINTS_OBS:
                    return o[1] in sh.ok["points"][o[0][1]]
                return True
            t = [o for o in t if countable(o)]
            obs = [o for o in obs if countable(o)]
            ob = list(obs)
            if rng.random() < 0.6:
                rng.shuffle(ob)          # the order of the queries after an edit matters to anything that is invalidated by a query
            new += t + ob + [o for o in descr[:12] if o not in obs]
        if not added:
            used[slot] -= 1          # this program had nothing the kind could act on: the slot is tried again elsewhere
            continue
        out.append({"prog": new, "kind": "followup", "followup": True, "base_kind": c.get("kind"), "n_base": len(prog),
                    "first_kind": want})
    return out
