"""Evaluate programs in the Gallina model: write cases_*.v, run coqc (vm_compute), parse the output."""
import os
import re
import subprocess
import sys
from concurrent.futures import ThreadPoolExecutor

from . import lang

COQ = os.path.join(os.path.dirname(os.path.dirname(os.path.abspath(__file__))), "coq")

HEADER = """From Coq Require Import String List ZArith QArith.
From BB Require Import Base.Names Model.Types Model.Blueprint Model.PyVal Model.Sequence Model.Output Model.Interp Show Cases.
Import ListNotations.
Open Scope string_scope.
"""


def _run_shard(args, raw=False):
    workdir, k, progs, timeout = args
    name = f"cases_{k}"
    body = ";\n  ".join(lang.coq_of_program(p) for p in progs)
    with open(os.path.join(workdir, name + ".v"), "w") as f:
        f.write(HEADER)
        f.write(f'Redirect "out_{k}" Eval vm_compute in (show_programs [\n  {body}\n]).\n')
    r = subprocess.run(["bash", "-c", f"ulimit -s unlimited; exec coqc -Q {COQ} BB {name}.v"], cwd=workdir, capture_output=True, text=True,
                       timeout=timeout)
    if r.returncode != 0:
        raise RuntimeError(f"coqc failed on {workdir}/{name}.v:\n{r.stdout[-2000:]}\n{r.stderr[-4000:]}")
    text = open(os.path.join(workdir, f"out_{k}.out")).read()
    m = re.search(r'=\s*"(.*)"\s*:\s*string', text, re.S)
    if not m:
        raise RuntimeError(f"unexpected coqc output in {workdir}/out_{k}.out: {text[:500]}")
    payload = m.group(1).replace('""', '"').replace("\n", " ")
    res = payload if raw else lang.parse_model(payload)
    assert raw or len(res) == len(progs), (len(res), len(progs))
    for x in (name + ".vo", name + ".glob", name + ".vok", name + ".vos", "." + name + ".aux"):
        try:
            os.unlink(os.path.join(workdir, x))
        except OSError:
            pass
    return res


def run_model(programs, workdir, shard=150, jobs=16, timeout=1200):
    os.makedirs(workdir, exist_ok=True)
    shards = [programs[i:i + shard] for i in range(0, len(programs), shard)]
    with ThreadPoolExecutor(max_workers=jobs) as ex:
        parts = list(ex.map(_run_shard, [(workdir, k, s, timeout) for k, s in enumerate(shards)]))
    return [r for part in parts for r in part]


EXTR = os.path.join(COQ, "extracted")


def build_extracted():
    """Extract the model to OCaml and compile it (when stale w.r.t. the compiled Coq model)."""
    import fcntl
    os.makedirs(EXTR, exist_ok=True)
    work = os.path.join(os.path.dirname(COQ), ".work")
    os.makedirs(work, exist_ok=True)
    with open(os.path.join(work, "extract.lock"), "w") as lk:
        fcntl.flock(lk, fcntl.LOCK_EX)
        _build_extracted_locked()


def _build_extracted_locked():
    src = os.path.join(COQ, "Extract.v")
    stamp = os.path.join(EXTR, "prelude.cmx")
    deps = [os.path.join(COQ, "Cases.vo"), os.path.join(os.path.dirname(__file__), "prelude.ml"), src]
    if os.path.exists(stamp) and all(os.path.getmtime(stamp) >= os.path.getmtime(d) for d in deps):
        return
    r = subprocess.run(["coqc", "-Q", COQ, "BB", src], cwd=EXTR, capture_output=True, text=True, timeout=600)
    if r.returncode != 0:
        raise RuntimeError("extraction failed:\n" + r.stdout[-2000:] + r.stderr[-3000:])
    import shutil
    shutil.copy(os.path.join(os.path.dirname(__file__), "prelude.ml"), os.path.join(EXTR, "prelude.ml"))
    r = subprocess.run(["ocamlfind", "ocamlopt", "-O2", "-w", "-a", "-c", "model.mli", "model.ml", "prelude.ml"],
                       cwd=EXTR, capture_output=True, text=True, timeout=600)
    if r.returncode != 0:
        raise RuntimeError("ocamlopt failed on the extracted model:\n" + r.stdout[-2000:] + r.stderr[-3000:])


def _run_shard_ml(args):
    workdir, k, progs, timeout = args
    name = f"mcases_{k}"
    with open(os.path.join(workdir, name + ".ml"), "w") as f:
        f.write("open Model\nopen Prelude\n")
        for i, p in enumerate(progs):
            f.write(f"let p{i} : op list = {lang.ml_of_program(p)}\n")
        f.write("let () = print_string (ostring (show_programs [" + "; ".join(f"p{i}" for i in range(len(progs))) + "]))\n")
    exe = os.path.join(workdir, name + ".exe")
    cmd = (f"ulimit -s unlimited; exec ocamlfind ocamlopt -w -a -I {EXTR} {EXTR}/model.cmx {EXTR}/prelude.cmx "
           f"{name}.ml -o {exe}")
    r = subprocess.run(["bash", "-c", cmd], cwd=workdir, capture_output=True, text=True, timeout=timeout)
    if r.returncode != 0:
        raise RuntimeError(f"ocamlopt failed on {workdir}/{name}.ml:\n{r.stdout[-2000:]}\n{r.stderr[-3000:]}")
    r = subprocess.run(["bash", "-c", f"ulimit -s unlimited; exec {exe}"], cwd=workdir, capture_output=True, text=True,
                       timeout=timeout)
    if r.returncode != 0:
        raise RuntimeError(f"extracted runner failed on {workdir}/{name}.ml:\n{r.stderr[-3000:]}")
    for x in (name + ".cmi", name + ".cmx", name + ".o", name + ".exe"):
        try:
            os.unlink(os.path.join(workdir, x))
        except OSError:
            pass
    return r.stdout


def run_model_fast(programs, workdir, shard=100, jobs=16, timeout=1200, crosscheck=6):
    """Extracted-OCaml evaluation of the model, cross-validated against vm_compute inside Coq on a sample."""
    build_extracted()
    os.makedirs(workdir, exist_ok=True)
    shards = [programs[i:i + shard] for i in range(0, len(programs), shard)]
    # cross-check sample: the first programs of moderate size (printing large terms inside Coq is prohibitively slow)
    sample = [p for p in programs if len(repr(p)) < 15000][:crosscheck] if crosscheck else []
    crosscheck = len(sample)
    with ThreadPoolExecutor(max_workers=jobs) as ex:
        fut_vm = ex.submit(run_model_text, sample, os.path.join(workdir, "vm"), 3) if crosscheck else None
        texts = list(ex.map(_run_shard_ml, [(workdir, k, s, timeout) for k, s in enumerate(shards)]))
        vm_texts = fut_vm.result() if fut_vm else []
    res = []
    for t, s in zip(texts, shards):
        part = lang.parse_model(t)
        assert len(part) == len(s)
        res += part
    if crosscheck:
        ml_sample = _run_shard_ml((workdir, 9999, sample, timeout))
        vm_joined = "[" + ",".join(x[1:-1] for x in vm_texts) + "]"
        if ml_sample != vm_joined:
            raise RuntimeError("extracted OCaml runner and vm_compute disagree on the cross-check sample "
                               f"(extraction is not trusted): {workdir}")
    return res


def run_model_text(programs, workdir, shard=3):
    """vm_compute inside Coq; returns the raw printed text per shard."""
    os.makedirs(workdir, exist_ok=True)
    shards = [programs[i:i + shard] for i in range(0, len(programs), shard)]
    return [_run_shard((workdir, k, s, 1200), raw=True) for k, s in enumerate(shards)]


if __name__ == "__main__":
    prog = [("BNew", 0), ("BInsert", 0, -1, "ramp", [0, 1.5], 0.1, None), ("BSetSR", 0, 100), ("OBForge", 0),
            ("OBDescr", 0)]
    print(run_model_fast([prog], sys.argv[1] if len(sys.argv) > 1 else "/verif/.work/smoke", crosscheck=1))
