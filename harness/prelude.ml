(* Glue between generated case files and the extracted model (coq/extracted/model.ml). *)
open Model

let rec n (k : int) : nat = if k <= 0 then O else S (n (k - 1))

let rec pos_of_int (k : int) : positive =
  if k <= 1 then XH else if k land 1 = 1 then XI (pos_of_int (k lsr 1)) else XO (pos_of_int (k lsr 1))

let ten = pos_of_int 10

(* decimal text -> positive through the extracted arithmetic, so any size is exact *)
let pos_of_string (s : Stdlib.String.t) : positive =
  let acc = ref None in
  Stdlib.String.iter
    (fun c ->
      let d = Char.code c - 48 in
      acc :=
        match !acc with
        | None -> if d = 0 then None else Some (pos_of_int d)
        | Some p ->
            let p10 = Coq_Pos.mul p ten in
            Some (if d = 0 then p10 else Coq_Pos.add p10 (pos_of_int d)))
    s;
  match !acc with Some p -> p | None -> failwith "pos_of_string"

let z (s : Stdlib.String.t) : z =
  if s = "0" then Z0
  else if s.[0] = '-' then Zneg (pos_of_string (Stdlib.String.sub s 1 (Stdlib.String.length s - 1)))
  else Zpos (pos_of_string s)

let qq (a : Stdlib.String.t) (b : Stdlib.String.t) : q = { qnum = z a; qden = pos_of_string b }

let ascii_of_char (c : char) : ascii =
  let k = Char.code c in
  let b i = (k lsr i) land 1 = 1 in
  Ascii (b 0, b 1, b 2, b 3, b 4, b 5, b 6, b 7)

let st (s : Stdlib.String.t) : str = Stdlib.List.init (Stdlib.String.length s) (fun i -> ascii_of_char s.[i])

let ostring (s : Model.string) : Stdlib.String.t =
  let buf = Buffer.create 65536 in
  let cur = ref s in
  let continue = ref true in
  while !continue do
    match !cur with
    | EmptyString -> continue := false
    | String (Ascii (b0, b1, b2, b3, b4, b5, b6, b7), t) ->
        let v i b = if b then 1 lsl i else 0 in
        Buffer.add_char buf (Char.chr (v 0 b0 + v 1 b1 + v 2 b2 + v 3 b3 + v 4 b4 + v 5 b5 + v 6 b6 + v 7 b7));
        cur := t
  done;
  Buffer.contents buf
