"""Tie T: the translator run, the validation of the numpy primitives it relies on, and the numeric
statement oracles (closed forms / transfer functions evaluated against the real implementation)."""
import os
import subprocess
import sys

import numpy as np

ROOT = os.path.dirname(os.path.dirname(os.path.abspath(__file__)))
COQ = os.path.join(ROOT, "coq")
GEN = {"PulseAtomsGen.v": ["Numeric/Atoms", "Props/C02"],
       "RipassoGen.v": ["Numeric/RipassoFacts", "Props/C12", "Props/C13"],
       "OutputGuardsGen.v": ["Numeric/Rescale", "Props/C14n"]}


def run_translator():
    """Regenerate coq/Generated/*.v from /repo; returns (failed generated files, log)."""
    before = {}
    for f in GEN:
        p = os.path.join(COQ, "Generated", f)
        before[f] = open(p).read() if os.path.exists(p) else None
    r = subprocess.run([sys.executable, os.path.join(ROOT, "translator", "py2coq.py"), "--all"], capture_output=True,
                       text=True, cwd=ROOT)
    failed = [l.split()[1].rstrip(":") for l in r.stdout.splitlines() if l.startswith("TRANSLATION-FAILED")]
    for f, deps in GEN.items():
        p = os.path.join(COQ, "Generated", f)
        now = open(p).read() if os.path.exists(p) else None
        if now != before[f]:
            # stale compiled files must not survive a changed translation
            for stem in ["Generated/" + f[:-2]] + deps:
                for ext in (".vo", ".vos", ".vok", ".glob"):
                    try:
                        os.unlink(os.path.join(COQ, stem + ext))
                    except OSError:
                        pass
    return failed, r.stdout + r.stderr


# ------------------------------------------------------------------ numpy primitives (NumpyPrims.v)
def validate_prims(rng):
    """The formulas of coq/Numeric/NumpyPrims.v against numpy itself; returns (count, failures)."""
    fails, count = [], 0
    for _ in range(200):
        n = rng.randint(1, 40)
        a, b = rng.uniform(-5, 5), rng.uniform(-5, 5)
        got = np.linspace(a, b, n, endpoint=False)
        want = np.array([a + k * ((b - a) / n) for k in range(n)])
        count += 1
        if not np.allclose(got, want, rtol=1e-12, atol=1e-12):
            fails.append(f"linspace_open({a},{b},{n})")
        d = rng.choice([1.0, 0.01, 1e-9, 2.5])
        got = np.fft.fftfreq(n, d)
        want = np.array([(k / (n * d)) if k < (n + 1) // 2 else ((k - n) / (n * d)) for k in range(n)])
        count += 1
        if not np.allclose(got, want, rtol=1e-12, atol=0):
            fails.append(f"fftfreq({n},{d})")
        x, y = np.arange(n, dtype=float), np.arange(100, 100 + rng.randint(0, 5), dtype=float)
        cat = np.concatenate((x, y))
        count += 1
        if any(cat[k] != (x[k] if k < len(x) else y[k - len(x)]) for k in range(len(cat))) or \
                any(x[::-1][k] != x[n - 1 - k] for k in range(n)):
            fails.append("concatenate / [::-1]")
        # numpy.fft.fft / ifft against the explicit sums of coq/Numeric/DFT.v (dft, idft)
        z = np.array([complex(rng.uniform(-3, 3), rng.uniform(-3, 3)) for _ in range(n)])
        kk, mm = np.meshgrid(np.arange(n), np.arange(n), indexing="ij")
        W = np.exp(-2j * np.pi * kk * mm / n)
        count += 2
        if not np.allclose(np.fft.fft(z), W @ z, rtol=1e-9, atol=1e-9):
            fails.append(f"fft is not the DFT sum (n={n})")
        if not np.allclose(np.fft.ifft(z), (np.conj(W) @ z) / n, rtol=1e-9, atol=1e-9):
            fails.append(f"ifft is not the inverse DFT sum (n={n})")
    return count, fails


# ------------------------------------------------------------------ C02: closed forms
def c02_cases(rng, n):
    for _ in range(n):
        SR = rng.choice([1, 1.7, 100, 1e4, 2.4e9, 50e9, 12.5])
        npts = rng.choice([2, 3, 4, 7, 10, 33, 100, 257, rng.randint(2, 400)])
        dur = npts / SR
        yield {"SR": SR, "npts": npts,
               # the ends of the frequency range (0 and Nyquist) are inside the quantifier
               "sine": [rng.choice([0, 0.0, SR / 2, rng.uniform(0, SR / 2), rng.uniform(0, SR / 2), rng.uniform(0, SR / 2), rng.uniform(0, SR / 2)]),
                        rng.uniform(-10, 10), rng.uniform(-10, 10), rng.uniform(-7, 7)],
               "ramp": [rng.uniform(-10, 10), rng.uniform(-10, 10)],
               "gauss": [rng.uniform(-10, 10), dur * rng.uniform(0.05, 0.5), dur * rng.uniform(-0.3, 0.3), rng.uniform(-10, 10)]}


def c02_oracle(case):
    """Closed forms of C02 against the real PulseAtoms; returns a list of failure strings."""
    from broadbean.broadbean import PulseAtoms as PA
    out = []
    SR, n = case["SR"], case["npts"]
    t = np.arange(n) / SR
    tol = dict(rtol=1e-9, atol=1e-9)

    def chk(name, got, want, scale=1.0):
        got = np.asarray(got, dtype=float)
        if got.shape != (n,):
            out.append(f"{name}: returned {got.shape} points, {n} requested")
        elif not np.allclose(got, want, rtol=1e-9, atol=1e-9 * max(1.0, scale)):
            k = int(np.argmax(np.abs(got - want)))
            out.append(f"{name}(SR={SR}, npts={n}): sample {k} is {got[k]!r}, closed form gives {want[k]!r}")
    f, a, o, ph = case["sine"]
    chk(f"sine{tuple(case['sine'])}", PA.sine(f, a, o, ph, SR, n), a * np.sin(2 * np.pi * f * t + ph) + o, abs(a) + abs(o))
    s0, s1 = case["ramp"]
    r = np.asarray(PA.ramp(s0, s1, SR, n), dtype=float)
    chk(f"ramp{tuple(case['ramp'])}", r, s0 + (s1 - s0) * np.arange(n) / n, abs(s0) + abs(s1))
    am, sg, mu, of = case["gauss"]
    g = np.exp(-((t - mu - n / SR / 2) ** 2) / (2 * sg ** 2))
    chk(f"gaussian{tuple(case['gauss'])}", PA.gaussian(am, sg, mu, of, SR, n), am * g + of, abs(am) + abs(of))
    g0 = np.exp(-((0 - mu - n / SR / 2) ** 2) / (2 * sg ** 2))
    if abs(1 - g0) > 1e-3:
        gsc = np.asarray(PA.gaussian_smooth_cutoff(am, sg, mu, of, SR, n), dtype=float)
        chk(f"gaussian_smooth_cutoff{tuple(case['gauss'])}", gsc, am * (g - g0) / (1 - g0) + of, abs(am) / abs(1 - g0) + abs(of))
        if gsc.shape == (n,) and abs(mu) < 1e-300 and abs(gsc[0] - of) > 1e-9 * max(1, abs(of), abs(am)):
            out.append(f"gaussian_smooth_cutoff does not start at offset: {gsc[0]} vs {of}")
    chk("waituntil", PA.waituntil(0.3, SR, n), np.zeros(n))
    seen = {}

    def probe(time, **kw):
        seen["time"], seen["kw"] = np.array(time), dict(kw)
        return 2.0 * time + kw["c"]
    kw = {"c": 1.25, "name": "x"}
    res = PA.arb_func(probe, kw, SR, n)
    if "time" not in seen or seen["time"].shape != (n,) or not np.allclose(seen["time"], t, rtol=1e-12, atol=1e-15 / SR) or seen["kw"] != kw:
        out.append("arb_func did not pass the time axis k/SR and the keyword arguments unchanged")
    chk("arb_func", res, 2.0 * t + 1.25)

    # a user function may scribble on the array it is given: later calls must still get a fresh k/SR axis
    def scribbler(time, **kw):
        time *= 3.0
        return time
    PA.arb_func(scribbler, {}, SR, n)
    seen.clear()
    PA.arb_func(probe, kw, SR, n)
    if "time" not in seen or not np.allclose(seen["time"], t, rtol=1e-12, atol=1e-15 / SR):
        out.append(f"arb_func(SR={SR}, npts={n}) handed over a time axis that an earlier user function had modified in place")
    chk("sine after arb_func", PA.sine(f, a, o, ph, SR, n), a * np.sin(2 * np.pi * f * t + ph) + o, abs(a) + abs(o))
    return out


# ------------------------------------------------------------------ C12 / C13: transfer functions
def H(kind, f, f_cut):
    iwt = 2j * np.pi * f / f_cut
    return iwt / (1 + iwt) if kind == "HP" else 1 / (1 + iwt)


def c12_oracle(N, SR, kind, f_cut, order, dcgain, inverse=False):
    """Unit impulses of length N: every bin below Nyquist is multiplied by H^(+-order)."""
    from broadbean import ripasso
    out = []
    freqs = np.fft.fftfreq(N, 1 / SR)
    tf = np.array([H(kind, f, f_cut) if f != 0 or kind == "LP" else (dcgain if kind == "HP" else 1.0) for f in freqs], dtype=complex)
    if kind == "HP":
        tf[freqs == 0] = dcgain
    want_tf = tf ** (-order if inverse else order)
    fn = ripasso.applyInverseRCFilter if inverse else ripasso.applyRCFilter
    for i in range(N):
        x = np.zeros(N)
        x[i] = 1.0
        y = fn(x, SR, kind, f_cut, order, DCgain=dcgain)
        if np.asarray(y).shape != (N,) or np.iscomplexobj(y):
            out.append(f"{fn.__name__}: output is not a real signal of the input length (N={N})")
            break
        X, Y = np.fft.fft(x), np.fft.fft(y)
        scale = max(1.0, float(np.max(np.abs(want_tf))))
        for j in range(N):
            if abs(freqs[j]) >= SR / 2 * (1 - 1e-12):
                continue                                      # the Nyquist bin is outside the statement
            if abs(Y[j] - X[j] * want_tf[j]) > 1e-9 * scale:
                out.append(f"{fn.__name__}(impulse {i} of {N}, SR={SR}, {kind}, f_cut={f_cut}, order={order}, DCgain={dcgain}): "
                           f"bin {j} (f={freqs[j]:.6g}) is {Y[j]:.12g}, expected X*H^{'-' if inverse else ''}{order} = {X[j] * want_tf[j]:.12g}")
                return out
    return out


def c12_custom_oracle(N, SR, rng):
    from broadbean import ripasso
    out = []
    m = rng.randint(2, 9)
    ax = np.sort(np.array([0.0] + [rng.uniform(0, SR) for _ in range(m - 1)]))
    ax[-1] = max(ax[-1], SR / 2 * rng.choice([1.0, 1.5]))
    ax = np.unique(ax.round(3))
    if len(ax) < 2 or ax[-1] < SR / 2:
        return out
    amp = np.array([rng.uniform(0.2, 3.0) for _ in ax])
    freqs = np.fft.fftfreq(N, 1 / SR)
    for invert in (False, True):
        want = np.interp(np.abs(freqs), ax, amp) ** (-1 if invert else 1)
        for i in range(N):
            x = np.zeros(N)
            x[i] = 1.0
            y = ripasso.applyCustomTransferFunction(x, SR, ax, amp, invert=invert)
            X, Y = np.fft.fft(x), np.fft.fft(y)
            for j in range(N):
                if abs(freqs[j]) >= SR / 2 * (1 - 1e-12):
                    continue
                if abs(Y[j] - X[j] * want[j]) > 1e-9 * max(1.0, float(np.max(np.abs(want)))):
                    out.append(f"applyCustomTransferFunction(impulse {i} of {N}, SR={SR}, axis={ax.tolist()}, amp={amp.tolist()}, "
                               f"invert={invert}): bin {j} (f={freqs[j]:.6g}) multiplied by {Y[j] / X[j]:.9g}, expected tf(|f|) = {want[j]:.9g}")
                    return out
    # rejected axes
    for bad, exn in (((np.array([0.0, SR, SR / 2 + 0.0]), amp[:3] if len(amp) >= 3 else np.ones(3)), "ValueError"),
                     ((np.array([0.0, SR / 4]), np.ones(2)), "MissingFrequenciesError")):
        try:
            ripasso.applyCustomTransferFunction(np.ones(N), SR, bad[0], bad[1])
            out.append(f"applyCustomTransferFunction accepted the frequency axis {bad[0].tolist()} (SR={SR})")
        except Exception as e:  # noqa: BLE001
            if type(e).__name__ != exn:
                out.append(f"applyCustomTransferFunction raised {type(e).__name__}, expected {exn}, for axis {bad[0].tolist()}")
    return out


def c12_linearity(N, SR, rng):
    from broadbean import ripasso
    out = []
    x, y, a = np.array([rng.uniform(-1, 1) for _ in range(N)]), np.array([rng.uniform(-1, 1) for _ in range(N)]), rng.uniform(-3, 3)
    for name, fn in (("applyRCFilter", lambda s: ripasso.applyRCFilter(s, SR, "HP", SR / 7, 2, DCgain=0.5)),
                     ("applyInverseRCFilter", lambda s: ripasso.applyInverseRCFilter(s, SR, "LP", SR / 3, 1)),
                     ("applyCustomTransferFunction", lambda s: ripasso.applyCustomTransferFunction(s, SR, np.array([0, SR]), np.array([1.0, 2.0])))):
        l, r = fn(a * x + y), a * fn(x) + fn(y)
        if not np.allclose(l, r, rtol=1e-9, atol=1e-9 * max(1.0, float(np.max(np.abs(r))))):
            out.append(f"{name} is not linear in the signal (N={N}, SR={SR})")
    return out


def c13_oracle(N, SR, kind, f_cut, order, rng):
    from broadbean import ripasso
    out = []
    freqs = np.fft.fftfreq(N, 1 / SR)
    cond = float(np.max(np.abs(np.array([H(kind, f, f_cut) if (f != 0 or kind == "LP") else 1.0 for f in freqs], dtype=complex) ** (-order))))
    cond = max(cond, 1.0)
    signals = [np.eye(N)[i] for i in range(min(N, 6))]
    signals.append(np.array([(-1.0) ** k for k in range(N)]))               # Nyquist content
    signals.append(np.array([1.0 if (k // 3) % 2 else -1.0 for k in range(N)]))
    signals.append(np.array([rng.uniform(-1, 1) for _ in range(N)]))
    for x in signals:
        X = np.fft.fft(x)
        a = ripasso.applyInverseRCFilter(ripasso.applyRCFilter(x, SR, kind, f_cut, order, DCgain=1), SR, kind, f_cut, order, DCgain=1)
        b = ripasso.applyRCFilter(ripasso.applyInverseRCFilter(x, SR, kind, f_cut, order, DCgain=1), SR, kind, f_cut, order, DCgain=1)
        for nm, z in (("filter then compensation", a), ("compensation then filter", b)):
            Z = np.fft.fft(z)
            for j in range(N):
                if abs(freqs[j]) >= SR / 2 * (1 - 1e-12):
                    continue
                if abs(Z[j] - X[j]) > 1e-9 * cond * cond * max(1.0, float(np.max(np.abs(X)))):
                    out.append(f"{nm} (N={N}, SR={SR}, {kind}, f_cut={f_cut}, order={order}): bin {j} is {Z[j]:.9g}, input had {X[j]:.9g}")
                    return out
        if kind == "HP":
            # default DC gain 0 on the filter side: only a constant offset is lost
            c = ripasso.applyInverseRCFilter(ripasso.applyRCFilter(x, SR, kind, f_cut, order), SR, kind, f_cut, order, DCgain=1)
            D = np.fft.fft(np.asarray(c) - x)
            inner = [j for j in range(1, N) if abs(freqs[j]) < SR / 2 * (1 - 1e-12)]      # every bin but DC, below Nyquist
            if inner and np.max(np.abs(D[inner])) > 1e-8 * cond * cond * max(1.0, float(np.max(np.abs(X)))):
                out.append(f"HP round trip with DC gain 0 differs from the input by more than a constant below Nyquist (N={N}, f_cut={f_cut}, order={order})")
                return out
    # orders compose additively; order -n is the compensation of order n
    x = signals[-1]
    for m_, n_ in ((1, 2), (2, 1), (1, 1)):
        l = ripasso.applyRCFilter(ripasso.applyRCFilter(x, SR, kind, f_cut, m_, DCgain=1), SR, kind, f_cut, n_, DCgain=1)
        r = ripasso.applyRCFilter(x, SR, kind, f_cut, m_ + n_, DCgain=1)
        if not np.allclose(np.fft.fft(l)[: N // 2], np.fft.fft(r)[: N // 2], rtol=1e-8, atol=1e-8):
            out.append(f"order {m_} then order {n_} is not order {m_ + n_} (N={N}, {kind}, f_cut={f_cut})")
    l = ripasso.applyRCFilter(x, SR, kind, f_cut, -order, DCgain=1)
    r = ripasso.applyInverseRCFilter(x, SR, kind, f_cut, order, DCgain=1)
    if not np.allclose(l, r, rtol=1e-8, atol=1e-8 * cond):
        out.append(f"order -{order} is not the compensation of order {order} (N={N}, {kind}, f_cut={f_cut})")
    for bad_call, what in ((lambda: ripasso.applyInverseRCFilter(x, SR, kind, f_cut, order, DCgain=0), "DC gain 0"),
                           (lambda: ripasso.applyInverseRCFilter(x, SR, kind, f_cut, order, DCgain=-1), "negative DC gain"),
                           (lambda: ripasso.applyRCFilter(x, SR, "BP", f_cut, order), "unknown kind"),
                           (lambda: ripasso.applyInverseRCFilter(x, SR, "XX", f_cut, order), "unknown kind")):
        try:
            bad_call()
            out.append(f"{what} was accepted")
        except ValueError:
            pass
        except Exception as e:  # noqa: BLE001
            out.append(f"{what}: raised {type(e).__name__} instead of ValueError")
    ax, amp = np.array([0.0, SR / 4, SR]), np.array([0.5, 2.0, 1.5])
    z = ripasso.applyCustomTransferFunction(ripasso.applyCustomTransferFunction(x, SR, ax, amp), SR, ax, amp, invert=True)
    if not np.allclose(np.fft.fft(z)[: (N + 1) // 2], np.fft.fft(x)[: (N + 1) // 2], rtol=1e-8, atol=1e-8):
        out.append(f"custom transfer function with invert=True does not undo itself (N={N})")
    return out
