"""Alias-graph correspondence for C08 / C09: check every row of alias/table.json against the real objects.

For each object the inspector walks its mutable containers (object attribute dict, lists, dicts, numpy arrays,
owned BluePrint / Element / Sequence instances), records id() and a content snapshot per container and assigns it
a cell KIND (path with keys / indices abstracted).  Then
  * derive rows: a container of the result that is the same object (id) as a container of the source must be a
    declared sharing (result kind, source kind); every mutable object met must have a kind of the schema;
  * mutator rows / read-only rows: the containers whose contents changed must have kinds in the declared write set,
    and no other live object changes at all.
"""
import copy
import json
import os
import random

import numpy as np

ROOT = os.path.dirname(os.path.dirname(os.path.abspath(__file__)))
TABLE = json.load(open(os.path.join(ROOT, "alias", "table.json")))


def snap(v):
    if isinstance(v, np.ndarray):
        return ("nd", v.shape, v.tobytes())
    if isinstance(v, (list, tuple)):
        return tuple(snap(x) for x in v)
    if isinstance(v, dict):
        return tuple((repr(k), snap(x)) for k, x in v.items())
    if callable(v):
        return ("fn", id(v))
    return repr(v)


def shallow(v):
    """Content of ONE container: immutable members by value, mutable members by identity."""
    def leaf(x):
        if isinstance(x, (list, dict, np.ndarray)) or hasattr(x, "__dict__") and not callable(x):
            return ("ref", id(x))
        return snap(x)
    if isinstance(v, np.ndarray):
        return snap(v)
    if isinstance(v, list):
        return tuple(leaf(x) for x in v)
    if isinstance(v, dict):
        return tuple((repr(k), leaf(x)) for k, x in v.items())
    return repr(v)


_KEEP = []


def walk(obj, ty, prefix="", out=None, unknown=None):
    """kind -> list of (id, shallow snapshot) for every mutable container below obj."""
    from broadbean.blueprint import BluePrint
    from broadbean.element import Element
    from broadbean.sequence import Sequence
    out = {} if out is None else out
    unknown = [] if unknown is None else unknown

    def add(kind, c):
        _KEEP.append(c)          # keep every container alive: a freed container's id() may be reused by a new object,
        #                          which would then look like the old container changed in place
        out.setdefault(prefix + kind, []).append((id(c), shallow(c)))
    add("attrs", obj.__dict__)
    if isinstance(obj, BluePrint):
        known = {"_namelist", "_funlist", "_argslist", "_durslist", "_segmark1", "_segmark2", "marker1", "marker2", "_SR"}
        for k, v in obj.__dict__.items():
            if k not in known:
                unknown.append(f"{prefix}{k}")
            elif isinstance(v, list):
                add(k, v)
                for x in v:
                    if isinstance(x, (list, dict, np.ndarray)):
                        unknown.append(f"{prefix}{k}[...] holds a mutable {type(x).__name__}")
    elif isinstance(obj, Element):
        add("_data", obj._data)
        add("_meta", obj._meta)
        for ch, d in obj._data.items():
            add("_data.*", d)
            for k, v in d.items():
                if k == "blueprint":
                    walk(v, "bp", prefix + "_data.*.blueprint.", out, unknown)
                elif k == "array":
                    add("_data.*.array", v)
                    for a in v.values():
                        add("_data.*.array.*", a)
                elif k == "flags":
                    add("_data.*.flags", v)
                elif isinstance(v, (list, dict, np.ndarray)):
                    unknown.append(f"{prefix}_data.*.{k}")
    elif isinstance(obj, Sequence):
        add("_data", obj._data)
        add("_sequencing", obj._sequencing)
        add("_awgspecs", obj._awgspecs)
        add("_meta", obj._meta)
        for v in obj._sequencing.values():
            add("_sequencing.*", v)
        for v in obj._awgspecs.values():
            if isinstance(v, dict):
                add("_awgspecs.*", v)
            elif isinstance(v, (list, np.ndarray)):
                unknown.append(f"{prefix}_awgspecs value of type {type(v).__name__}")
        for ent in obj._data.values():
            sub = {}
            walk(ent, "el" if isinstance(ent, Element) else "sq", "", sub, unknown)
            for k, cells in sub.items():
                kind = "entry._meta" if k.endswith("_meta") else "entry"
                out.setdefault(prefix + kind, []).extend(cells)
    return out, unknown


def ids(cells):
    return {i: k for k, lst in cells.items() for i, _ in lst}


def changed_kinds(before, after):
    """Kinds of the containers that existed before and whose contents differ now."""
    b = {i: (k, s) for k, lst in before.items() for i, s in lst}
    out = set()
    for k, lst in after.items():
        for i, s in lst:
            if i in b and b[i][1] != s:
                out.add(b[i][0])
    return out


# ----------------------------------------------------------------------------- object factory
def make_objects(rng):
    """Random real objects built through the public API (via the op-language interpreter)."""
    from . import lang
    from .props import c09
    from .props.elgen import Regs
    regs = Regs()
    SR = rng.choice([100, 1000.0])
    N = rng.randint(6, 16)
    prog = []
    r, ops, names, funcs, sizes = c09.mk_bp(rng, regs, SR, N)
    prog += ops
    e = regs.E()
    prog.append(("ENew", e))
    chans = rng.sample([1, 2, "A"], rng.randint(1, 2))
    meta = {}
    for c in chans:
        r2, ops2, n2, f2, s2 = c09.mk_bp(rng, regs, SR, N)
        prog += ops2 + [("EAddBp", e, c, r2)]
        meta[c] = (n2, f2, s2)
        if rng.random() < 0.5:
            prog.append(("EAddFlags", e, c, [1, 0, 2, 0]))
    if rng.random() < 0.4:
        prog.append(("EAddArray", e, "arr", [(0.25, N)], SR, [("m1", [(0.0, N)]), ("m2", [(1.0, N)])]))
    s = regs.S()
    prog += [("SNew", s), ("SSetSR", s, SR), ("SAddElement", s, 1, e), ("SAddElement", s, 2, e)]
    allch = chans + (["arr"] if any(o[0] == "EAddArray" for o in prog) else [])
    for c in allch:
        prog += [("SSetAmp", s, c, 4), ("SSetOff", s, c, 0)]
    if rng.random() < 0.5:
        prog.append(("SSetFilter", s, chans[0], "HP", 1, SR * 0.1, None))
    else:
        prog.append(("SSetFilter", s, chans[0], "LP", 1, None, 1 / (SR * 0.2)))
    if rng.random() < 0.5:
        prog.append(("SSetDelay", s, chans[0], 3 / SR))
    im = lang.Impl()
    res = im.run(prog)
    assert not any(isinstance(x, lang.Err) for x in res), res
    return {"bp": im.B[r], "el": im.E[e], "sq": im.S[s], "bpmeta": (names, funcs, sizes), "elmeta": (chans, meta), "SR": SR, "N": N,
            "im": im}


# ----------------------------------------------------------------------------- rows
def mutator_calls(o, rng):
    """name -> (receiver type, callable performing that public mutation on the objects in o)."""
    from broadbean.broadbean import PulseAtoms
    from .props.common import PARAMS
    bp, el, sq = o["bp"], o["el"], o["sq"]
    names, funcs, sizes = o["bpmeta"]
    chans, meta = o["elmeta"]
    SR = o["SR"]
    i = rng.randrange(len(names))
    c = rng.choice(chans)
    n2, f2, s2 = meta[c]
    j = rng.randrange(len(n2))
    return {
        "bp.insertSegment": ("bp", lambda: bp.insertSegment(rng.choice([0, -1]), PulseAtoms.ramp, (0, 1), dur=2 / SR, name="z")),
        "bp.removeSegment": ("bp", lambda: bp.removeSegment(names[i]) if len(names) > 1 else bp.insertSegment(0, PulseAtoms.ramp, (0, 1), dur=2 / SR)),
        "bp.changeArg": ("bp", lambda: bp.changeArg(names[i], PARAMS[funcs[i]][0], 0.375)),
        "bp.changeDuration": ("bp", lambda: bp.changeDuration(names[i], (sizes[i] + 1) / SR)),
        "bp.setSegmentMarker": ("bp", lambda: bp.setSegmentMarker(names[i], (0, 2 / SR), rng.choice([1, 2]))),
        "bp.removeSegmentMarker": ("bp", lambda: bp.removeSegmentMarker(names[i], rng.choice([1, 2]))),
        "bp.setSR": ("bp", lambda: bp.setSR(SR * 2)),
        "bp.marker=": ("bp", lambda: setattr(bp, "marker1", [(0, 2 / SR)])),
        "el.addBluePrint": ("el", lambda: el.addBluePrint(c, bp)),
        "el.addArray": ("el", lambda: el.addArray("new", np.zeros(o["N"]), SR, m1=np.zeros(o["N"]))),
        "el.addFlags": ("el", lambda: el.addFlags(c, [3, 3, 0, 1])),
        "el.changeArg": ("el", lambda: el.changeArg(c, n2[j], PARAMS[f2[j]][0], 0.625)),
        "el.changeDuration": ("el", lambda: el.changeDuration(c, n2[j], s2[j] / SR * 1.0)),
        "sq.setSR": ("sq", lambda: sq.setSR(SR * 2)),
        "sq.setChannelAmplitude": ("sq", lambda: sq.setChannelAmplitude(c, 3)),
        "sq.setChannelOffset": ("sq", lambda: sq.setChannelOffset(c, 0.5)),
        "sq.setChannelVoltageRange": ("sq", lambda: sq.setChannelVoltageRange(c, 5, 0.25)),
        "sq.setChannelDelay": ("sq", lambda: sq.setChannelDelay(c, 5 / SR)),
        "sq.setChannelFilterCompensation": ("sq", lambda: sq.setChannelFilterCompensation(c, "LP", order=2, f_cut=SR * 0.3)),
        "sq.setSequencing*": ("sq", lambda: (sq.setSequencingGoto(1, 2), sq.setSequencingNumberOfRepetitions(2, 7))),
        "sq.setSequenceSettings": ("sq", lambda: sq.setSequenceSettings(1, 1, 2, 0, 1)),
        "sq.addElement": ("sq", lambda: sq.addElement(rng.choice([2, 3]), el)),
        "sq.addSubSequence": ("sq", lambda: _add_sub(o)),
        "sq.name=": ("sq", lambda: setattr(sq, "name", "renamed")),
        "sq.element().changeArg": ("sq", lambda: sq.element(1).changeArg(c, n2[j], PARAMS[f2[j]][0], 0.875)),
        "sq.element().changeDuration": ("sq", lambda: sq.element(1).changeDuration(c, n2[j], s2[j] / SR * 1.0)),
    }


def _add_sub(o):
    from broadbean.sequence import Sequence
    sub = Sequence()
    sub.setSR(o["SR"])
    sub.addElement(1, o["el"])
    o["sq"].addSubSequence(3, sub)


def readonly_calls(o):
    import tempfile
    bp, el, sq = o["bp"], o["el"], o["sq"]
    from broadbean.blueprint import _subelementBuilder

    def tojson(x):
        fd, p = tempfile.mkstemp(suffix=".json", dir=os.environ.get("VERIF_TMP"))
        os.close(fd)
        try:
            x.write_to_json(p)
        finally:
            os.unlink(p)
    bpcp, elcp, sqcp = bp.copy(), el.copy(), sq.copy()
    return {
        "bp.description": lambda: bp.description, "bp.write_to_json": lambda: tojson(bp), "bp.duration": lambda: bp.duration,
        "bp.points": lambda: bp.points, "bp.==": lambda: bp == bpcp, "bp.forge": lambda: _subelementBuilder(bp, bp.SR, bp.durations),
        "bp.copy": lambda: bp.copy(), "bp.+": lambda: bp + bpcp,
        "el.description": lambda: el.description, "el.write_to_json": lambda: (tojson(el) if "arr" not in el.channels else None),
        "el.getArrays": lambda: el.getArrays(), "el.getArrays(includetime)": lambda: el.getArrays(includetime=True),
        "el.channels": lambda: el.channels, "el.==": lambda: (el == elcp if "arr" not in el.channels else None), "el.copy": lambda: el.copy(),
        "el.validateDurations": lambda: el.validateDurations(), "el.SR": lambda: el.SR, "el.points": lambda: el.points,
        "el.duration": lambda: el.duration,
        "sq.description": lambda: sq.description, "sq.write_to_json": lambda: (tojson(sq) if "arr" not in sq.element(1).channels else None),
        "sq.==": lambda: (sq == sqcp if "arr" not in sq.element(1).channels else None), "sq.copy": lambda: sq.copy(),
        "sq.+": lambda: sq + sqcp, "sq.checkConsistency": lambda: sq.checkConsistency(), "sq.channels": lambda: sq.channels,
        "sq.points": lambda: sq.points, "sq.duration": lambda: sq.duration,
        "sq.forge": lambda: [sq.forge(apply_delays=a, apply_filters=b, includetime=c) for a in (0, 1) for b in (0, 1) for c in (0, 1)],
        "sq.outputForAWGFile": lambda: _try(sq.outputForAWGFile), "sq.outputForSEQXFile": lambda: _try(sq.outputForSEQXFile),
        "sq.outputForSEQXFileWithFlags": lambda: _try(sq.outputForSEQXFileWithFlags),
    }


def _try(f):
    try:
        return f()
    except (ValueError, KeyError):
        return None          # e.g. fewer than 2400 points: raising is fine, mutating is not


def derive_calls(o, rng):
    """name -> callable returning (source object, source type, result object, result type)."""
    from broadbean import tools
    from broadbean.element import Element
    from broadbean.sequence import Sequence
    from .props.common import PARAMS
    bp, el, sq = o["bp"], o["el"], o["sq"]
    chans, meta = o["elmeta"]
    c = chans[0]
    n2, f2, s2 = meta[c]

    def add_bp():
        e = Element()
        e.addBluePrint(1, bp)
        return bp, "bp", e, "el"

    def add_el():
        s = Sequence()
        s.setSR(o["SR"])
        s.addElement(1, el)
        return el, "el", s, "sq"

    def add_sub():
        outer = Sequence()
        outer.setSR(o["SR"])
        outer.addSubSequence(1, sq)
        return sq, "sq", outer, "sq"
    return {
        "bp.copy": lambda: (bp, "bp", bp.copy(), "bp"),
        "bp.+": lambda: (bp, "bp", (bp + bp.copy()) if rng.random() < 0.5 else (bp + type(bp)()), "bp"),
        "el.addBluePrint": add_bp,
        "el.copy": lambda: (el, "el", el.copy(), "el"),
        "sq.addElement": add_el,
        "sq.addSubSequence": add_sub,
        "sq.copy": lambda: (sq, "sq", sq.copy(), "sq"),
        "sq.+": lambda: (sq, "sq", sq.copy() + sq, "sq"),            # right operand is the source: shares filter dicts
        "tools.makeVaryingSequence": lambda: (el, "el", tools.makeVaryingSequence(el, [c], [n2[0]], [PARAMS[f2[0]][0]], [[0.1, 0.2]]), "sq"),
        "tools.makeLinearlyVaryingSequence": lambda: (el, "el", tools.makeLinearlyVaryingSequence(el, c, n2[0], PARAMS[f2[0]][0], 0.1, 0.3, 0.1), "sq"),
        "tools.repeatAndVarySequence": lambda: (sq, "sq", tools.repeatAndVarySequence(sq, [1], [c], [n2[0]], [PARAMS[f2[0]][0]], [[0.1, 0.2]]), "sq"),
    }


def check_tables(seed, rounds):
    """Returns (number of row instances checked, list of failures, sample)."""
    rng = random.Random(seed)
    fails, n = [], 0
    sample = None
    schema = {ty: set(ks) for ty, ks in TABLE["kinds"].items()}
    for _ in range(rounds):
        # ---- mutators and read-only operations: declared write sets
        for table, maker in (("mutators", None), ("readonly", None)):
            names = list(TABLE[table])
            for name in names:
                del _KEEP[:]
                o = make_objects(rng)
                calls = mutator_calls(o, rng) if table == "mutators" else {k: (k.split(".")[0], v) for k, v in readonly_calls(o).items()}
                if name not in calls:
                    fails.append(f"no driver for table row {name}")
                    continue
                ty, fn = calls[name]
                objs = {"bp": o["bp"], "el": o["el"], "sq": o["sq"]}
                before = {k: walk(v, k) for k, v in objs.items()}
                for k, (cells, unknown) in before.items():
                    if unknown:
                        fails.append(f"mutable object outside the container schema: {unknown[:3]}")
                    extra = set(cells) - schema[k]
                    if extra:
                        fails.append(f"cell kinds {sorted(extra)} of a {k} are not in the schema")
                try:
                    fn()
                except Exception as e:  # noqa: BLE001
                    fails.append(f"{name}: driver raised {type(e).__name__}: {e}")
                    continue
                n += 1
                declared = set(TABLE[table][name])
                for k, v in objs.items():
                    after, _ = walk(v, k)
                    ch = changed_kinds(before[k][0], after)
                    if k == ty:
                        if not ch <= declared:
                            fails.append(f"{name} changed containers of kinds {sorted(ch - declared)} outside its declared write set {sorted(declared)}")
                    elif ch and not (ty == "bp" and False):
                        # another live object changed: only allowed when it is not related at all - never here
                        fails.append(f"{name} on the {ty} changed containers {sorted(ch)} of the separate {k} object")
                if sample is None:
                    sample = {"row": name, "declared_write_set": sorted(declared), "changed": sorted(changed_kinds(before[ty][0], walk(objs[ty], ty)[0]))}
        # ---- derive operations: declared sharing
        derive_rows = list(TABLE["derive"].items())
        # the blueprint-level derive steps once more on a blueprint of > 1024 segments (size-dependent copy paths)
        derive_rows += [(nm, rw, True) for nm, rw in TABLE["derive"].items() if nm.startswith("bp.") or nm == "el.addBluePrint"]
        for entry in derive_rows:
            name, row = entry[0], entry[1]
            o = make_objects(rng)
            if len(entry) == 3:
                from broadbean.broadbean import PulseAtoms
                for _k in range(1040):
                    o["bp"].insertSegment(-1, PulseAtoms.ramp, (0, 1), dur=2 / o["SR"])
            calls = derive_calls(o, rng)
            if name not in calls:
                fails.append(f"no driver for derive row {name}")
                continue
            try:
                src, sty, res, rty = calls[name]()
            except Exception as e:  # noqa: BLE001
                fails.append(f"{name}: driver raised {type(e).__name__}: {e}")
                continue
            n += 1
            (sc, _), (rc, unknown) = walk(src, sty), walk(res, rty)
            if unknown:
                fails.append(f"{name}: mutable object outside the container schema in the result: {unknown[:3]}")
            sid = ids(sc)
            allowed = {(a, b) for a, b in row["shared"].items()}
            for k, lst in rc.items():
                for i, _s in lst:
                    if i in sid and (k, sid[i]) not in allowed:
                        fails.append(f"{name}: result container of kind {k!r} is the same object as the source's {sid[i]!r} (not a declared sharing)")
    return n, sorted(set(fails))[:6], sample
