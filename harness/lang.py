"""The op language shared by the Gallina model (coq/Model/Interp.v) and the implementation.

A *program* is a list of ops; an op is a tuple (name, arg, ...).  This module
  * encodes programs as Gallina terms (`coq_of_program`),
  * runs them against the real broadbean (`run_impl`),
  * evaluates the model's printed results (`parse_model`),
  * compares model and implementation results (`compare`), materialising waveform *plans*
    through the real PulseAtoms / ripasso functions.
"""
import copy
import json
import math
import os
import tempfile
import warnings
from fractions import Fraction

import numpy as np

warnings.filterwarnings("ignore")

FN = {"ramp": "Framp", "sine": "Fsine", "gaussian": "Fgauss", "gaussian_smooth_cutoff": "Fgsc",
      "waituntil": "Fwait", "ua": "Fua", "ub2": "Fub", "uc": "Fuc"}

SIG = {
    "BNew": ["nat"],
    "BInsert": ["nat", "Z", "fn", "vals", "val", "optstr"],
    "BRemove": ["nat", "str"],
    "BChangeArg": ["nat", "str", "argref", "val", "bool"],
    "BChangeDur": ["nat", "str", "val", "bool"],
    "BSetSegMarker": ["nat", "str", "mspec", "Z"],
    "BRemoveSegMarker": ["nat", "str", "Z"],
    "BSetSR": ["nat", "val"],
    "BSetMarker": ["nat", "Z", "mspecs"],
    "BCopy": ["nat", "nat"],
    "BAdd": ["nat", "nat", "nat"],
    "BFromJson": ["nat", "nat"],
    "ENew": ["nat"],
    "EAddBp": ["nat", "chan", "nat"],
    "EAddArray": ["nat", "chan", "rle", "val", "markers"],
    "EAddFlags": ["nat", "chan", "vals"],
    "EChangeArg": ["nat", "chan", "str", "argref", "val", "bool"],
    "EChangeDur": ["nat", "chan", "str", "val", "bool"],
    "ECopy": ["nat", "nat"],
    "EFromJson": ["nat", "nat"],
    "SNew": ["nat"],
    "SSetSR": ["nat", "val"],
    "SSetAmp": ["nat", "chan", "val"],
    "SSetOff": ["nat", "chan", "val"],
    "SSetDelay": ["nat", "chan", "val"],
    "SSetFilter": ["nat", "chan", "str", "optZ", "val", "val"],
    "SAddElement": ["nat", "Z", "nat"],
    "SAddSub": ["nat", "Z", "nat"],
    "SSetSequencing": ["nat", "Z", "sqfield", "Z"],
    "SSetSettings": ["nat", "Z", "Z", "Z", "Z", "Z"],
    "SSetName": ["nat", "str"],
    "SAdd": ["nat", "nat", "nat"],
    "SCopy": ["nat", "nat"],
    "SFromJson": ["nat", "nat"],
    "SElemChangeArg": ["nat", "Z", "chan", "str", "argref", "val", "bool"],
    "SElemChangeDur": ["nat", "Z", "chan", "str", "val", "bool"],
    "SElemAddBp": ["nat", "Z", "chan", "nat"],
    "SElemAddArray": ["nat", "Z", "chan", "rle", "val", "markers"],
    "SElemAddFlags": ["nat", "Z", "chan", "vals"],
    "TVarying": ["nat", "chans", "strs", "argrefs", "valss", "nat"],
    "TRepeat": ["nat", "Zs", "chans", "strs", "argrefs", "valss", "nat"],
    "TLinear": ["nat", "chan", "str", "argref", "Q", "Q", "Q", "nat"],
    "OBDescr": ["nat"], "OBForge": ["nat"], "OBDuration": ["nat"], "OBPoints": ["nat"], "OBLen": ["nat"],
    "OBEq": ["nat", "nat"],
    "OEDescr": ["nat"], "OEValidate": ["nat"], "OEPoints": ["nat"], "OEDuration": ["nat"], "OESR": ["nat"],
    "OEChannels": ["nat"], "OEArrays": ["nat", "bool"], "OEEq": ["nat", "nat"],
    "OSDescr": ["nat"], "OSCheck": ["nat"], "OSChannels": ["nat"], "OSPoints": ["nat"], "OSDuration": ["nat"],
    "OSForge": ["nat", "bool", "bool", "bool"], "OSAwg": ["nat", "index"], "OSSeqx": ["nat", "bool"],
    "OSEq": ["nat", "nat"], "OSLen": ["nat"], "OSSR": ["nat"],
}

SQFIELD = {"twait": "FTwait", "nrep": "FNrep", "jump_input": "FJumpInput", "jump_target": "FJumpTarget",
           "goto": "FGoto"}


# ----------------------------------------------------------------------------- Gallina encoder
def cq(x):
    f = Fraction(x)
    return f"(q ({f.numerator}) {f.denominator})"


def cstr(s):
    assert all(c.isalnum() or c in "_ ." for c in s) or s == "", s
    return f'(S_ "{s}")'


def cval(v):
    if v is None:
        return "VNone"
    if isinstance(v, str):
        return f"(VStr {cstr(v)})"
    return f"(VNum {cq(v)})"


def clist(f, l):
    return "[" + "; ".join(f(x) for x in l) + "]"


def cchan(c):
    return f"(CInt ({c}))" if isinstance(c, int) else f"(CStr {cstr(c)})"


def cargref(a):
    return f"(AInt ({a}))" if isinstance(a, int) else f"(AStr {cstr(a)})"


def crle(r):
    return clist(lambda p: f"({cq(p[0])}, ({int(p[1])})%Z)", r)


def coptZ(z):
    return "None" if z is None else f"(Some ({z})%Z)"


def cindex(ix):
    if isinstance(ix, int):
        return f"(IdxInt ({ix}))"
    _, a, b, c = ix
    return f"(IdxSlice {coptZ(a)} {coptZ(b)} {coptZ(c)})"


ENC = {
    "nat": lambda x: f"{int(x)}%nat",
    "Z": lambda x: f"({int(x)})%Z",
    "fn": lambda x: FN[x],
    "val": cval,
    "vals": lambda l: clist(cval, l),
    "valss": lambda l: clist(lambda y: clist(cval, y), l),
    "optstr": lambda s: "None" if s is None else f"(Some {cstr(s)})",
    "str": cstr,
    "strs": lambda l: clist(cstr, l),
    "argref": cargref,
    "argrefs": lambda l: clist(cargref, l),
    "bool": lambda b: "true" if b else "false",
    "mspec": lambda m: f"({cq(m[0])}, {cq(m[1])})",
    "mspecs": lambda l: clist(lambda m: f"({cq(m[0])}, {cq(m[1])})", l),
    "chan": cchan,
    "chans": lambda l: clist(cchan, l),
    "rle": crle,
    "markers": lambda l: clist(lambda p: f"({cstr(p[0])}, {crle(p[1])})", l),
    "optZ": coptZ,
    "Zs": lambda l: clist(lambda z: f"({int(z)})%Z", l),
    "sqfield": lambda f: SQFIELD[f],
    "index": cindex,
    "Q": cq,
}


def coq_of_op(op):
    name, *args = op
    sig = SIG[name]
    assert len(sig) == len(args), op
    return "(" + " ".join([name] + [ENC[t](a) for t, a in zip(sig, args)]) + ")"


def coq_of_program(prog):
    return "[" + ";\n   ".join(coq_of_op(o) for o in prog) + "]"


# ----------------------------------------------------------------------------- OCaml encoder
def mq(x):
    f = Fraction(x)
    return f'(qq "{f.numerator}" "{f.denominator}")'


def mz(x):
    return f'(z "{int(x)}")'


def mstr(s):
    assert all(c.isalnum() or c in "_ ." for c in s) or s == "", s
    return f'(st "{s}")'


def mval(v):
    if v is None:
        return "VNone"
    if isinstance(v, str):
        return f"(VStr {mstr(v)})"
    return f"(VNum {mq(v)})"


def mlist(f, l):
    return "[" + "; ".join(f(x) for x in l) + "]"


def mchan(c):
    return f"(CInt {mz(c)})" if isinstance(c, int) else f"(CStr {mstr(c)})"


def margref(a):
    return f"(AInt {mz(a)})" if isinstance(a, int) else f"(AStr {mstr(a)})"


def mrle(r):
    return mlist(lambda p: f"({mq(p[0])}, {mz(p[1])})", r)


def moptZ(v):
    return "None" if v is None else f"(Some {mz(v)})"


def mindex(ix):
    if isinstance(ix, int):
        return f"(IdxInt {mz(ix)})"
    _, a, b, c = ix
    return f"(IdxSlice ({moptZ(a)}, {moptZ(b)}, {moptZ(c)}))"


MENC = {
    "nat": lambda x: f"(n {int(x)})",
    "Z": mz,
    "fn": lambda x: FN[x],
    "val": mval,
    "vals": lambda l: mlist(mval, l),
    "valss": lambda l: mlist(lambda y: mlist(mval, y), l),
    "optstr": lambda s: "None" if s is None else f"(Some {mstr(s)})",
    "str": mstr,
    "strs": lambda l: mlist(mstr, l),
    "argref": margref,
    "argrefs": lambda l: mlist(margref, l),
    "bool": lambda b: "true" if b else "false",
    "mspec": lambda m: f"({mq(m[0])}, {mq(m[1])})",
    "mspecs": lambda l: mlist(lambda m: f"({mq(m[0])}, {mq(m[1])})", l),
    "chan": mchan,
    "chans": lambda l: mlist(mchan, l),
    "rle": mrle,
    "markers": lambda l: mlist(lambda p: f"({mstr(p[0])}, {mrle(p[1])})", l),
    "optZ": moptZ,
    "Zs": lambda l: mlist(mz, l),
    "sqfield": lambda f: SQFIELD[f],
    "index": mindex,
    "Q": mq,
}


def ml_of_op(op):
    name, *args = op
    sig = SIG[name]
    assert len(sig) == len(args), op
    enc = [MENC[t](a) for t, a in zip(sig, args)]
    return f"{name} {enc[0]}" if len(enc) == 1 else f"{name} ({', '.join(enc)})"


def ml_of_program(prog):
    return "[" + ";\n   ".join(ml_of_op(o) for o in prog) + "]"


# ----------------------------------------------------------------------------- model output
class Err:
    def __init__(self, cls):
        self.cls = cls

    def __repr__(self):
        return f"Err({self.cls})"


class Tup(list):
    pass


class Marker:           # run-length list of (bit, count)
    def __init__(self, rle):
        self.rle = [(int(b), int(c)) for b, c in rle if c > 0]

    def __repr__(self):
        return f"M({self.rle})"


class Plan:
    def __init__(self, kind, *a):
        self.kind, self.a = kind, a

    def __repr__(self):
        return f"{self.kind}{self.a}"


MODEL_NS = {
    "__builtins__": {},
    "Q": Fraction,
    "E": Err,
    "T": lambda *a: Tup(a),
    "M": Marker,
    "R": lambda r: Plan("R", r),
    "B": lambda b: Plan("B", b),
    "P": lambda a, b, w: Plan("P", a, b, w),
    "F": lambda k, o, f, s, w: Plan("F", k, o, f, s, w),
    "S": lambda a, o, w: Plan("S", a, o, w),
    "None": None, "True": True, "False": False,
}


def parse_model(text):
    return eval(text, MODEL_NS)  # the text is printed by coq/Show.v from the model


# ----------------------------------------------------------------------------- implementation
def _imports():
    import broadbean as bb
    from broadbean import ripasso
    from broadbean.blueprint import BluePrint, _subelementBuilder
    from broadbean.element import Element
    from broadbean.sequence import Sequence
    from broadbean import tools
    from . import userfuncs
    return bb, ripasso, BluePrint, _subelementBuilder, Element, Sequence, tools, userfuncs


def pyfn(name):
    bb, *_rest, userfuncs = _imports()
    if name == "waituntil":
        return "waituntil"
    if name in userfuncs.USER:
        return userfuncs.USER[name]
    return getattr(bb.PulseAtoms, name)


def expand_rle(r):
    if not r:
        return np.zeros(0)
    return np.concatenate([np.full(int(c), float(v)) for v, c in r])


class Impl:
    """Runs a program against the real library; one result per op."""

    def __init__(self):
        self.B, self.E, self.S = {}, {}, {}
        (self.bb, self.ripasso, self.BluePrint, self.builder, self.Element, self.Sequence, self.tools,
         self.userfuncs) = _imports()

    def run(self, prog):
        out = []
        for op in prog:
            try:
                # snapshot: descriptions alias live internal lists (marker specs, awgspecs)
                out.append(copy.deepcopy(getattr(self, "op_" + op[0])(*op[1:])))
            except Exception as e:  # noqa: BLE001 - the exception class is the observation
                out.append(Err(type(e).__name__))
        return out

    # blueprints
    def op_BNew(self, r):
        self.B[r] = self.BluePrint()

    def op_BInsert(self, r, pos, f, args, dur, name):
        if pos == 2 and dur is not None:
            # the deprecated spelling of the same argument (insertSegment(..., durs=...)): same meaning
            self.B[r].insertSegment(pos, pyfn(f), self.arg_values(args), durs=dur, name=name)
        else:
            self.B[r].insertSegment(pos, pyfn(f), self.arg_values(args), dur=dur, name=name)

    def op_BRemove(self, r, n):
        self.B[r].removeSegment(n)

    def op_BChangeArg(self, r, n, a, v, ev):
        self.B[r].changeArg(n, a, self.arg_value(v), ev)

    def op_BChangeDur(self, r, n, d, ev):
        self.B[r].changeDuration(n, d, ev)

    def op_BSetSegMarker(self, r, n, spec, mid):
        self.B[r].setSegmentMarker(n, tuple(spec), mid)

    def op_BRemoveSegMarker(self, r, n, mid):
        self.B[r].removeSegmentMarker(n, mid)

    def op_BSetSR(self, r, v):
        self.B[r].setSR(v)

    def op_BSetMarker(self, r, mid, l):
        if mid == 1:
            self.B[r].marker1 = [tuple(m) for m in l]
        else:
            self.B[r].marker2 = [tuple(m) for m in l]

    def op_BCopy(self, r, r2):
        self.B[r2] = self.B[r].copy()

    def op_BAdd(self, r1, r2, r3):
        self.B[r3] = self.B[r1] + self.B[r2]

    def _json(self, obj, cls):
        fd, path = tempfile.mkstemp(suffix=".json", dir=os.environ.get("VERIF_TMP"))
        os.close(fd)
        try:
            obj.write_to_json(path)
            return cls.init_from_json(path)
        finally:
            os.unlink(path)

    def op_BFromJson(self, r, r2):
        self.B[r2] = self._json(self.B[r], self.BluePrint)

    # elements
    def op_ENew(self, e):
        self.E[e] = self.Element()

    def op_EAddBp(self, e, c, r):
        self.E[e].addBluePrint(c, self.B[r])

    def op_EAddArray(self, e, c, w, SR, ms):
        self.E[e].addArray(c, expand_rle(w), SR, **{n: expand_rle(a) for n, a in ms})

    def op_EAddFlags(self, e, c, fl):
        self.E[e].addFlags(c, list(fl))

    def op_EChangeArg(self, e, c, n, a, v, ev):
        self.E[e].changeArg(c, n, a, self.arg_value(v), ev)

    def op_EChangeDur(self, e, c, n, d, ev):
        self.E[e].changeDuration(c, n, d, ev)

    def op_ECopy(self, e, e2):
        self.E[e2] = self.E[e].copy()

    def op_EFromJson(self, e, e2):
        self.E[e2] = self._json(self.E[e], self.Element)

    # sequences
    def op_SNew(self, s):
        self.S[s] = self.Sequence()

    def op_SSetSR(self, s, v):
        self.S[s].setSR(v)

    def op_SSetAmp(self, s, c, v):
        self.S[s].setChannelAmplitude(c, v)

    def op_SSetOff(self, s, c, v):
        self.S[s].setChannelOffset(c, v)

    def op_SSetRange(self, s, c, a, o):
        self.S[s].setChannelVoltageRange(c, a, o)          # deprecated setter: amplitude and offset in one call

    def op_SSetDelay(self, s, c, v):
        self.S[s].setChannelDelay(c, v)

    def op_SSetFilter(self, s, c, kind, order, fcut, tau):
        if order == 1:          # the documented default: leave it to the library
            self.S[s].setChannelFilterCompensation(c, kind, f_cut=fcut, tau=tau)
        else:
            self.S[s].setChannelFilterCompensation(c, kind, order=(1.5 if order is None else order), f_cut=fcut, tau=tau)

    def op_SAddElement(self, s, pos, e):
        getattr(self, "handles", {}).pop((s, pos), None)
        self.S[s].addElement(pos, self.E[e])

    def op_SAddSub(self, s, pos, s2):
        getattr(self, "handles", {}).pop((s, pos), None)
        self.S[s].addSubSequence(pos, self.S[s2])

    def op_HHoldHandles(self):
        """Harness-only: fetch `seq.element(pos)` for every element position of every sequence built so far and keep
        the handles; later SElemChangeArg / SElemChangeDur on such a position go through the retained handle instead
        of a fresh `element(pos)` call (until the position is refilled or the register rebound).  The library returns
        the stored object itself, so the meaning is the same and the model sees nothing; what differs is that no
        `element()` call happens between an export and the edit."""
        self.handles = {}
        for s, sq in self.S.items():
            for pos in list(sq._data.keys()):
                try:
                    h = sq.element(pos)
                except Exception:  # noqa: BLE001
                    continue
                if isinstance(h, self.Element):
                    self.handles[(s, pos)] = (sq, h)

    def elem_handle(self, s, pos):
        h = getattr(self, "handles", {}).get((s, pos))
        if h is not None and h[0] is self.S[s]:
            return h[1]
        return self.S[s].element(pos)

    def op_SSetSequencing(self, s, pos, f, v):
        m = {"twait": "setSequencingTriggerWait", "nrep": "setSequencingNumberOfRepetitions",
             "jump_input": "setSequencingEventInput", "jump_target": "setSequencingEventJumpTarget",
             "goto": "setSequencingGoto"}[f]
        getattr(self.S[s], m)(pos, self.int_value(v))

    def op_SSetSettings(self, s, pos, w, n, j, g):
        self.S[s].setSequenceSettings(pos, *(self.int_value(x) for x in (w, n, j, g)))

    def op_HNumpyInts(self):
        """Harness-only: from here on integer sequencing values reach the library as numpy integer scalars (what
        np.arange or array indexing hand to a user's script); the model sees the same integers."""
        self.np_ints = True

    def op_HArrayArgs(self):
        """Harness-only: from here on numeric segment arguments reach the library as zero-dimensional numpy arrays
        (what np.array(x), arr.mean() on some versions, or xarray / h5py reads hand to a user's script): mutable
        objects inside the argument tuples.  The model sees the same numbers.  Only used in programs without JSON ops
        (json cannot serialise an ndarray; no property asks for that)."""
        self.arr_args = True

    def arg_value(self, v):
        if getattr(self, "arr_args", False) and isinstance(v, (int, float)) and not isinstance(v, bool):
            return np.array(float(v))
        return v

    def arg_values(self, args):
        return tuple(self.arg_value(a) for a in args)

    def int_value(self, v):
        if getattr(self, "np_ints", False) and isinstance(v, int) and not isinstance(v, bool):
            return np.int64(v)
        return v

    def op_SSetName(self, s, n):
        self.S[s].name = n

    def op_SAdd(self, s1, s2, s3):
        self.S[s3] = self.S[s1] + self.S[s2]

    def op_SCopy(self, s, s2):
        self.S[s2] = self.S[s].copy()

    def op_SFromJson(self, s, s2):
        self.S[s2] = self._json(self.S[s], self.Sequence)

    def op_SElemChangeArg(self, s, pos, c, n, a, v, ev):
        self.elem_handle(s, pos).changeArg(c, n, a, self.arg_value(v), ev)

    def op_SElemChangeDur(self, s, pos, c, n, d, ev):
        self.elem_handle(s, pos).changeDuration(c, n, d, ev)

    def op_SElemAddBp(self, s, pos, c, r):
        self.elem_handle(s, pos).addBluePrint(c, self.B[r])

    def op_SElemAddArray(self, s, pos, c, w, SR, ms):
        self.elem_handle(s, pos).addArray(c, expand_rle(w), SR, **{n: expand_rle(a) for n, a in ms})

    def op_SElemAddFlags(self, s, pos, c, fl):
        self.elem_handle(s, pos).addFlags(c, list(fl))

    # tools
    def op_TVarying(self, e, cs, ns, ars, its, s):
        self.S[s] = self.tools.makeVaryingSequence(self.E[e], list(cs), list(ns), list(ars), [list(i) for i in its])

    def op_TRepeat(self, s, ps, cs, ns, ars, its, s2):
        self.S[s2] = self.tools.repeatAndVarySequence(self.S[s], list(ps), list(cs), list(ns), list(ars),
                                                      [list(i) for i in its])

    def op_TLinear(self, e, c, n, a, start, stop, step, s):
        self.S[s] = self.tools.makeLinearlyVaryingSequence(self.E[e], c, n, a, start, stop, step)

    # observations
    def op_OBDescr(self, r):
        d = self.B[r].description
        if not getattr(self, "arr_args", False):
            json.dumps(d)                      # C19: always JSON-serialisable
        return d

    def op_OBForge(self, r):
        b = self.B[r]
        if b.length_segments == 0:
            raise ValueError("empty blueprint")
        del self.userfuncs.CALLS[:]
        out = self.builder(b, b.SR, b.durations)
        out["calls"] = [(n, list(a), SR, npts) for (n, a, SR, npts) in self.userfuncs.CALLS]
        return out

    def op_OBDuration(self, r):
        return self.B[r].duration

    def op_OBPoints(self, r):
        return self.B[r].points

    def op_OBLen(self, r):
        return self.B[r].length_segments

    def op_OBEq(self, r1, r2):
        return self.B[r1] == self.B[r2]

    def op_OEDescr(self, e):
        d = self.E[e].description
        if not getattr(self, "arr_args", False):
            json.dumps(d)
        return d

    def op_OEValidate(self, e):
        self.E[e].validateDurations()

    def op_OEPoints(self, e):
        return self.E[e].points

    def op_OEDuration(self, e):
        return self.E[e].duration

    def op_OESR(self, e):
        return self.E[e].SR

    def op_OEChannels(self, e):
        return self.E[e].channels

    def op_OEArrays(self, e, t):
        return self.E[e].getArrays(includetime=t)

    def op_OEEq(self, e1, e2):
        return self.E[e1] == self.E[e2]

    def op_OSDescr(self, s):
        d = self.S[s].description
        if getattr(self, "np_ints", False):
            # numpy integers handed in by this harness are the caller's business when serialising: not part of C19
            json.dumps(d, default=lambda o: int(o) if isinstance(o, np.integer) else (_ for _ in ()).throw(TypeError(repr(o))))
        else:
            json.dumps(d)
        return d

    def op_OSCheck(self, s):
        return self.S[s].checkConsistency()

    def op_OSChannels(self, s):
        return self.S[s].channels

    def op_OSPoints(self, s):
        return self.S[s].points

    def op_OSDuration(self, s):
        return self.S[s].duration

    def op_OSForge(self, s, d, f, t):
        if (d, f, t) == (True, True, False):
            return self.S[s].forge()          # the documented defaults: delays and filters on, no time axis
        return self.S[s].forge(apply_delays=d, apply_filters=f, includetime=t)

    def op_OSAwg(self, s, ix):
        pkg = self.S[s].outputForAWGFile()
        key = ix if isinstance(ix, int) else slice(ix[1], ix[2], ix[3])
        try:
            item = pkg[key]
        except Exception as e:  # noqa: BLE001 - indexing errors are part of the observation
            item = Err(type(e).__name__)
        return {"channels": pkg.channels, "item": item}

    def op_OSSeqx(self, s, fl):
        return self.S[s].outputForSEQXFileWithFlags() if fl else self.S[s].outputForSEQXFile()

    def op_OSEq(self, s1, s2):
        return self.S[s1] == self.S[s2]

    def op_OSSR(self, s):
        return self.S[s].SR

    def op_OSLen(self, s):
        return self.S[s].length_sequenceelements


def run_impl(prog):
    return Impl().run(prog)


# ----------------------------------------------------------------------------- plans
def materialise(plan):
    """Evaluate a waveform plan with the real library functions."""
    from broadbean import ripasso
    k = plan.kind
    if k == "B":
        parts = []
        for fname, args, SR, n in plan.a[0]:
            f = pyfn(fname)
            if f == "waituntil":
                from broadbean.broadbean import PulseAtoms
                f = PulseAtoms.waituntil
            with np.errstate(all="ignore"):
                # SR as a numpy scalar, as in the forger (npts / SR is then a numpy float): degenerate arguments such as
                # sigma = 0 give inf / nan samples there, not a ZeroDivisionError
                parts.append(np.asarray(f(*[float(a) for a in args], np.float64(SR), int(n)), dtype=float))
        return np.concatenate(parts) if parts else np.zeros(0)
    if k == "R":
        return expand_rle(plan.a[0])
    if k == "P":
        pre, post, w = plan.a
        return np.concatenate((np.zeros(int(pre)), materialise(w), np.zeros(int(post))))
    if k == "F":
        kind, order, fcut, SR, w = plan.a
        return ripasso.applyInverseRCFilter(materialise(w), float(SR), kind, float(fcut), int(order), DCgain=1)
    if k == "S":
        ampl, off, w = plan.a
        return (materialise(w) - float(off)) / (float(ampl) / 2)
    raise ValueError(k)


def resolve_guards(m):
    """Evaluate a guarded model result: any plan outside its [lo, hi] -> ValueError."""
    while isinstance(m, dict) and "__guard__" in m:
        bad = False
        for plan, lo, hi in m["__guard__"]:
            w = materialise(plan)
            if len(w) and (w.max() > float(hi) or w.min() < float(lo)):
                bad = True
                break
        m = Err("ValueError") if bad else m["then"]
    return m


# ----------------------------------------------------------------------------- comparison
NAMED = {"ElementDurationError", "SegmentDurationError", "SequencingError", "MissingFrequenciesError"}


def errclass(c):
    return c if c in NAMED else "Error"


def rle_of(arr):
    out = []
    for x in np.asarray(arr).tolist():
        if out and out[-1][0] == x:
            out[-1][1] += 1
        else:
            out.append([x, 1])
    return [(a, b) for a, b in out]


def numclose(a, b, rel=1e-9):
    a, b = float(a), float(b)
    return a == b or abs(a - b) <= rel * max(abs(a), abs(b)) + 1e-15


def arrclose(a, b):
    a, b = np.asarray(a, dtype=float), np.asarray(b, dtype=float)
    if a.shape != b.shape:
        return f"shape {a.shape} vs {b.shape}"
    if np.array_equal(a, b):
        return None
    scale = max(1e-300, float(np.max(np.abs(a))) if a.size else 0.0)
    bad = np.abs(a - b) > 1e-9 * scale + 1e-12
    if bad.any():
        i = int(np.argmax(bad))
        return f"first differing sample {i}: model {a[i]!r} impl {b[i]!r} ({int(bad.sum())} differ)"
    return None


def compare(m, x, path="$"):
    """Return a list of human-readable differences between a model result and an implementation result."""
    m = resolve_guards(m)
    if isinstance(m, Err):
        if not isinstance(x, Err):
            return [f"{path}: model raises {m.cls}, implementation returned {short(x)}"]
        if errclass(m.cls) != errclass(x.cls):
            return [f"{path}: model raises {m.cls}, implementation raises {x.cls}"]
        return []
    if isinstance(x, Err):
        return [f"{path}: implementation raises {x.cls}, model returned {short(m)}"]
    if isinstance(m, Plan):
        if not isinstance(x, (np.ndarray, list)):
            return [f"{path}: expected an array, got {short(x)}"]
        d = arrclose(materialise(m), x)
        return [f"{path}: waveform differs from plan {short(m)}: {d}"] if d else []
    if isinstance(m, Marker):
        want = [(float(b), c) for b, c in m.rle]
        got = rle_of(x)
        return [] if want == [(float(a), b) for a, b in got] else [f"{path}: marker RLE model {want} impl {got}"]
    if isinstance(m, Tup) and len(m) and m[0] == "k_over_SR":
        _, n, SR = m
        x = np.asarray(x)
        if x.shape != (n,):
            return [f"{path}: time axis shape {x.shape}, model says {n} points"]
        want = np.arange(n) / float(SR)
        return [] if np.allclose(x, want, rtol=1e-9, atol=1e-12 / float(SR)) else [f"{path}: time axis is not k/SR"]
    if isinstance(m, Tup) and len(m) and m[0] == "linspace_incl":
        return [] if len(x) == m[1] else [f"{path}: time axis of {len(x)} points, model {m[1]}"]
    if m is None or isinstance(m, (bool, str)):
        if isinstance(x, np.bool_):
            x = bool(x)
        return [] if (x == m and type(x) is type(m)) or (m is None and x is None) else [f"{path}: model {m!r} impl {short(x)}"]
    if isinstance(m, (int, Fraction)) and not isinstance(m, bool):
        if isinstance(x, np.ndarray) and x.ndim == 0:
            x = x.item()                      # a zero-dimensional array is the number it holds (HArrayArgs)
        if isinstance(x, (bool, np.bool_)) or not isinstance(x, (int, float, np.integer, np.floating)):
            return [f"{path}: model number {m} impl {short(x)}"]
        if isinstance(m, int):
            return [] if x == m else [f"{path}: model {m} impl {x!r}"]
        return [] if numclose(m, x) else [f"{path}: model {float(m)!r} impl {x!r}"]
    if isinstance(m, list):
        if isinstance(x, np.ndarray):
            x = list(x)
        if not isinstance(x, (list, tuple)):
            return [f"{path}: model sequence of {len(m)}, impl {short(x)}"]
        if len(x) != len(m):
            return [f"{path}: length model {len(m)} impl {len(x)}"]
        out = []
        for i, (a, b) in enumerate(zip(m, x)):
            out += compare(a, b, f"{path}[{i}]")
        return out
    if isinstance(m, dict):
        if not isinstance(x, dict):
            return [f"{path}: model dict, impl {short(x)}"]
        if set(m.keys()) != set(x.keys()):
            return [f"{path}: keys model {sorted(map(str, m))} impl {sorted(map(str, x))}"]
        out = []
        for k in m:
            out += compare(m[k], x[k], f"{path}.{k}")
        return out
    return [f"{path}: cannot compare model value {short(m)}"]


def short(v, n=160):
    s = repr(v)
    return s if len(s) <= n else s[:n] + "..."


def unbox0(v):
    """A zero-dimensional array is the scalar it holds."""
    return v.item() if isinstance(v, np.ndarray) and v.ndim == 0 else v


def compare_plain(a, b):
    """Structural equality of two implementation values (nested lists / tuples / arrays / numbers)."""
    a, b = unbox0(a), unbox0(b)
    if isinstance(a, (list, tuple, np.ndarray)) and isinstance(b, (list, tuple, np.ndarray)):
        if len(a) != len(b):
            return True
        return any(compare_plain(x, y) for x, y in zip(a, b))
    if isinstance(a, (list, tuple, np.ndarray)) or isinstance(b, (list, tuple, np.ndarray)):
        return True
    return not (a == b)


def compare_plain_dict(a, b):
    """Structural equality of two implementation values that may contain dicts (True when they differ)."""
    a, b = unbox0(a), unbox0(b)
    if isinstance(a, dict) and isinstance(b, dict):
        if set(a) != set(b):
            return True
        return any(compare_plain_dict(a[k], b[k]) for k in a)
    if isinstance(a, dict) or isinstance(b, dict):
        return True
    if isinstance(a, (list, tuple, np.ndarray)) and isinstance(b, (list, tuple, np.ndarray)):
        if len(a) != len(b):
            return True
        return any(compare_plain_dict(x, y) for x, y in zip(a, b))
    if isinstance(a, (list, tuple, np.ndarray)) or isinstance(b, (list, tuple, np.ndarray)):
        return True
    return not (a == b)


# ops of the harness that the model sees as a short sequence of its own ops (one implementation call, one observation)
MACROS = {"SSetRange": lambda s, c, a, o: [("SSetAmp", s, c, a), ("SSetOff", s, c, o)],
          "HNumpyInts": lambda: [], "HArrayArgs": lambda: [], "HHoldHandles": lambda: []}


def expand_macros(prog):
    """-> (program for the model, groups): groups[i] = (start, count) of the model ops standing for op i."""
    out, groups = [], []
    for op in prog:
        ops = MACROS[op[0]](*op[1:]) if op[0] in MACROS else [op]
        groups.append((len(out), len(ops)))
        out += [tuple(o) for o in ops]
    return out, groups


def collapse_macros(results, groups):
    """One result per original op: the first exception of its group, otherwise the group's last result."""
    out = []
    for start, n in groups:
        grp = results[start:start + n]
        errs = [r for r in grp if isinstance(r, Err)]
        out.append(errs[0] if errs else (grp[-1] if grp else None))
    return out


def segment_keys(desc):
    """The segment_NN keys of a blueprint description in segment order (numeric: segment_100 comes after segment_99)."""
    ks = [x for x in desc if isinstance(x, str) and x.startswith("segment_")]
    return sorted(ks, key=lambda k: (int(k[8:]) if k[8:].isdigit() else 10**9, k))


def wait_dust(results):
    """True when some blueprint description among these observations has a `waituntil` whose target coincides with the
    time elapsed before it up to binary64 dust (relative 1e-9).  Whether such a blueprint counts as overrun (ValueError),
    as too short a wait (SegmentDurationError) or as fine is decided by the rounding of the implementation's running float
    sum, while the model adds the same float values exactly: the float gap of DESIGN section 4, not a property matter."""
    from fractions import Fraction
    found = []

    def bp(desc):
        el = Fraction(0)
        for k in segment_keys(desc):
            sg = desc[k]
            try:
                if sg.get("function") == "waituntil":
                    t = Fraction(sg["arguments"]["waittime"][0])
                    if t > 0 and abs(t - el) <= abs(t) / 10**9:
                        found.append(k)
                    el = max(el, t)
                else:
                    el += Fraction(sg["durations"])
            except Exception:  # noqa: BLE001 - non-numeric durations etc.: not a timing question
                return

    def walk(x, depth=0):
        if depth > 8:
            return
        if isinstance(x, dict):
            if any(isinstance(k, str) and k.startswith("segment_") for k in x):
                bp(x)
            for v in x.values():
                walk(v, depth + 1)
        elif isinstance(x, (list, tuple)):
            for v in x:
                walk(v, depth + 1)

    walk(results)
    return bool(found)
