"""Reach obligation of the correspondence tie: source lines that are NEW with respect to the pinned snapshot
(coverage/baseline.json: the executable line texts per function of the source the model was written against) and that
sit in a function this check exercises must be executed by this check's run.  A size-, type- or history-dependent
branch added to the library is otherwise invisible to a sampled comparison: the model says what the old code did, the
generated cases never enter the new code, and nothing disagrees.  An unreached new line is reported as a broken tie
(`no-failing-input-found` unless the generated cases also find a failing input).

Not counted: `raise` statements, logging / warning / print calls, `pass`, `continue`, `break` and the bodies of `except`
handlers (error branches for inputs outside the op language are unexecuted in the baseline as well)."""
import ast
import json
import os
import sys
import types

ROOT = os.path.dirname(os.path.dirname(os.path.abspath(__file__)))
BASELINE = os.path.join(ROOT, "coverage", "baseline.json")
FILES = ["blueprint.py", "element.py", "sequence.py", "tools.py", "ripasso.py", "broadbean.py"]
TOOL = 3
_hits = set()
_active = False


def src_dir():
    return os.path.join(os.environ.get("VERIF_REPO", "/repo"), "src", "broadbean")


def start():
    global _active
    if _active or not hasattr(sys, "monitoring"):
        return
    mon = sys.monitoring
    prefix = src_dir()

    def on_line(code, line):
        if code.co_filename.startswith(prefix):
            _hits.add((os.path.basename(code.co_filename), line))
        return mon.DISABLE
    try:
        mon.use_tool_id(TOOL, "verif-reach")
    except ValueError:
        return
    mon.register_callback(TOOL, mon.events.LINE, on_line)
    mon.set_events(TOOL, mon.events.LINE)
    _active = True


def stop():
    global _active
    if not _active:
        return set(_hits)
    mon = sys.monitoring
    mon.set_events(TOOL, 0)
    mon.register_callback(TOOL, mon.events.LINE, None)
    mon.free_tool_id(TOOL)
    _active = False
    return set(_hits)


def _skippable(stmt):
    if isinstance(stmt, (ast.Raise, ast.Pass, ast.Continue, ast.Break)):
        return True          # continue / break often have no line event of their own (jump threading)
    if isinstance(stmt, ast.Expr) and isinstance(stmt.value, ast.Call):
        f = stmt.value.func
        name = ast.unparse(f)
        return name.startswith(("log.", "logging.", "warnings.")) or name == "print"
    if isinstance(stmt, ast.Expr) and isinstance(stmt.value, ast.Constant):
        return True          # docstrings
    return False


def functions(path):
    """qualname -> list of (lineno, normalised text) of the executable statements' first lines, error plumbing skipped."""
    src = open(path).read()
    tree = ast.parse(src)
    lines = src.split("\n")
    out = {}

    def visit(node, prefix):
        for ch in ast.iter_child_nodes(node):
            if isinstance(ch, (ast.FunctionDef, ast.AsyncFunctionDef)):
                q = prefix + ch.name
                body = []
                in_handler = {id(x) for h in ast.walk(ch) if isinstance(h, ast.ExceptHandler) for x in ast.walk(h)}
                for st in ast.walk(ch):
                    if isinstance(st, ast.stmt) and st is not ch and not isinstance(st, (ast.FunctionDef, ast.ClassDef)) \
                            and not _skippable(st) and id(st) not in in_handler:      # except-bodies: error plumbing
                        # the statement's own first line (compound statements: their header)
                        body.append((st.lineno, " ".join(lines[st.lineno - 1].split())))
                out[q] = sorted(set(body))
                visit(ch, q + ".")
            elif isinstance(ch, ast.ClassDef):
                visit(ch, prefix + ch.name + ".")
    visit(tree, "")
    return out


def snapshot():
    return {f: {q: sorted({t for _l, t in body}) for q, body in functions(os.path.join(src_dir(), f)).items()} for f in FILES}


def write_baseline():
    os.makedirs(os.path.dirname(BASELINE), exist_ok=True)
    json.dump(snapshot(), open(BASELINE, "w"), indent=0, sort_keys=True)


def unreached_new_lines(hits):
    """[(file, lineno, qualname, text)] - new lines (not in the baseline) of functions this run touched, never executed."""
    if not os.path.exists(BASELINE):
        return []
    base = json.load(open(BASELINE))
    out = []
    for f in FILES:
        path = os.path.join(src_dir(), f)
        if not os.path.exists(path):
            continue
        hit_lines = {l for ff, l in hits if ff == f}
        for q, body in functions(path).items():
            if not body:
                continue
            lo, hi = body[0][0], body[-1][0]
            if not any(lo - 2 <= l <= hi for l in hit_lines):
                continue                     # this check does not exercise the function
            known = set(base.get(f, {}).get(q, []))
            for ln, text in body:
                if text not in known and ln not in hit_lines:
                    out.append((f, ln, q, text))
    return out




# ---------------------------------------------------------------------------------------------------------------------
# "Reached" is judged over what ALL generators reach (quick tier, fixed seed, implementation only), computed once per
# state of the source and of the generators and cached under .work/reach/: a property's own run exercises only part of
# the functions it touches, and a rewrite of a branch that another property's cases cover is covered.
def _state_key():
    import hashlib
    h = hashlib.sha1()
    for f in FILES:
        h.update(open(os.path.join(src_dir(), f), "rb").read())
    pdir = os.path.join(ROOT, "harness", "props")
    for f in sorted(os.listdir(pdir)) + ["../lang.py", "../alias.py", "../numeric.py"]:
        if f.endswith(".py"):
            h.update(open(os.path.join(pdir, f), "rb").read())
    return h.hexdigest()[:16]


def compute_union(out_path):
    import importlib
    import logging
    import random
    logging.disable(logging.CRITICAL)
    sys.path.insert(0, os.path.join(os.environ.get("VERIF_REPO", "/repo"), "src"))
    sys.path.insert(0, ROOT)
    from harness import lang
    start()
    for n in range(1, 21):
        mod = importlib.import_module(f"harness.props.c{n:02d}")
        rng = random.Random(0)
        for case in mod.generate(rng, "quick"):
            lang.run_impl(case["prog"])
        extra = getattr(mod, "extra_checks", None)
        if extra:
            try:
                extra({"pid": f"C{n:02d}", "tier": "quick", "seed": 0, "workdir": os.path.join(ROOT, ".work", "reach"),
                       "report": lambda *a, **k: None, "notes": [], "log": lambda *a: None})
            except Exception:  # noqa: BLE001 - a crashing extra check is its own check's business
                pass
    hits = stop()
    json.dump(sorted(hits), open(out_path, "w"))


def union_hits():
    """Lines reached by all quick generators on the current source; cached per (source, generators) state."""
    import fcntl
    import subprocess
    d = os.path.join(ROOT, ".work", "reach")
    os.makedirs(d, exist_ok=True)
    path = os.path.join(d, _state_key() + ".json")
    with open(os.path.join(d, "lock"), "w") as lk:
        fcntl.flock(lk, fcntl.LOCK_EX)
        if not os.path.exists(path):
            env = dict(os.environ, PYTHONHASHSEED="0")
            r = subprocess.run([sys.executable, "-m", "harness.cover", "--union", path + ".tmp"], cwd=ROOT, env=env,
                               capture_output=True, text=True, timeout=3000)
            if r.returncode != 0 or not os.path.exists(path + ".tmp"):
                return set(), f"union pass failed: {r.stderr[-400:]}"
            os.replace(path + ".tmp", path)
    return {tuple(x) for x in json.load(open(path))}, None


if __name__ == "__main__":
    if len(sys.argv) > 2 and sys.argv[1] == "--union":
        compute_union(sys.argv[2])
    else:
        write_baseline()
        print("baseline written:", BASELINE)
