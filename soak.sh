#!/bin/bash
# usage: soak.sh <tier> <seed>...   runs every check for every seed; prints only alarms and a summary
tier=$1; shift
[ -n "$VP_RUN_REPO" ] && export VERIF_REPO=$VP_RUN_REPO
./check --setup >/dev/null 2>&1 || { echo "setup failed"; exit 2; }
bad=0
for seed in "$@"; do
  for p in C01 C02 C03 C04 C05 C06 C07 C08 C09 C10 C11 C12 C13 C14 C15 C16 C17 C18 C19 C20; do
    out=$(VERIF_SEED=$seed ./check $p --tier $tier 2>&1); rc=$?
    if [ $rc -ne 0 ]; then bad=$((bad+1)); echo "=== seed $seed $p exit $rc"; echo "$out" | grep -v KNOWN-FINDING | tail -6 | cut -c1-400; fi
  done
  echo "seed $seed done ($(date +%H:%M))"
done
echo "alarms: $bad"
