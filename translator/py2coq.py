#!/usr/bin/env python3
"""Fail-closed translator: straight-line numeric kernels of broadbean (Python ast) -> Gallina.

Re-run on every check against the *current* /repo sources; the theorems in coq/Numeric/*.v are stated
about the generated definitions, so a changed constant, slope, split index or sign breaks a proof.
Anything outside the supported subset aborts with exit status 3 (the caller reports the broken tie).

  py2coq.py --all            write coq/Generated/{PulseAtomsGen,RipassoGen,OutputGuardsGen}.v
"""
import ast
import os
import sys
from fractions import Fraction

ROOT = os.path.dirname(os.path.dirname(os.path.abspath(__file__)))
SRC = os.environ.get("BB_SRC", "/repo/src/broadbean")
OUT = os.path.join(ROOT, "coq", "Generated")


class Unsupported(Exception):
    pass


def fail(node, why):
    raise Unsupported(f"line {getattr(node, 'lineno', '?')}: {why}: {ast.dump(node)[:160]}")


# types: R, C, nat, Z, bool, str, arrR, arrC, fun (opaque user function), opaque
class Val:
    def __init__(self, ty, term=None, length=None, elem=None):
        self.ty, self.term, self.length, self.elem = ty, term, length, elem   # elem: k-term -> term (arrays)

    def is_arr(self):
        return self.ty in ("arrR", "arrC")


def lit(x):
    f = Fraction(x)
    if f.denominator == 1:
        return f"(IZR ({f.numerator})%Z)"
    return f"(Rdiv (IZR ({f.numerator})%Z) (IZR ({f.denominator})%Z))"


def to_R(v, node=None):
    if v.ty == "R":
        return v.term
    if v.ty == "nat":
        return f"(INR {v.term})"
    if v.ty == "nat_lit":
        return f"(IZR ({v.term})%Z)"
    if v.ty == "Z":
        return f"(IZR {v.term})"
    fail(node, f"cannot use a {v.ty} as a real")


def to_C(v, node=None):
    if v.ty == "C":
        return v.term
    return f"(RtoC {to_R(v, node)})"


def lift(a, b, node):
    """Common scalar domain of two scalar values."""
    if "C" in (a.ty, b.ty):
        return "C", to_C(a, node), to_C(b, node)
    return "R", to_R(a, node), to_R(b, node)


OPS = {"R": {ast.Add: "Rplus", ast.Sub: "Rminus", ast.Mult: "Rmult", ast.Div: "Rdiv"},
       "C": {ast.Add: "Cplus", ast.Sub: "Cminus", ast.Mult: "Cmult", ast.Div: "Cdiv"}}


class Fn:
    """Translates one function body."""

    def __init__(self, name, params, known, section_vars):
        self.name, self.env, self.known, self.lets = name, dict(params), known, []
        self.section_vars = section_vars
        self.guards = []          # (Prop text, exception name)
        self.fresh = 0
        self.obligations = []     # (length term, length term) that must be equal
        self.keep_all = False     # inside a branch every assignment is live (it is the branch's result)

    # ---- expressions ----
    def scalar_bin(self, op, a, b, node):
        if type(op) is ast.Pow:
            if b.ty == "Z" and a.ty in ("C",):
                return Val("C", f"(Cpowz {a.term} {b.term})")
            if b.ty == "nat_lit":
                return Val(a.ty if a.ty in ("R", "C") else "R",
                           f"({'Cpow_nat' if a.ty == 'C' else 'pow'} {a.term if a.ty in ('R', 'C') else to_R(a, node)} {b.term}%nat)")
            if b.ty == "Z" and a.ty == "R":
                return Val("R", f"(Rpowz {a.term} {b.term})")
            fail(node, "unsupported power")
        if type(op) is ast.FloorDiv:
            if a.ty == "nat" and b.ty in ("nat", "nat_lit"):
                return Val("nat", f"(Nat.div {a.term} {b.term})")
            fail(node, "floor division only on naturals")
        if a.ty in ("nat", "nat_lit") and b.ty in ("nat", "nat_lit") and type(op) in (ast.Add,):
            return Val("nat", f"(Nat.add {a.term} {b.term})")
        if b.ty == "nat_lit":
            b = Val("R", f"(INR {b.term}%nat)")
        if a.ty == "nat_lit":
            a = Val("R", f"(INR {a.term}%nat)")
        dom, x, y = lift(a, b, node)
        if type(op) not in OPS[dom]:
            fail(node, "operator")
        return Val(dom, f"({OPS[dom][type(op)]} {x} {y})")

    def expr(self, n):
        if isinstance(n, ast.Constant):
            if isinstance(n.value, bool):
                return Val("bool", "true" if n.value else "false")
            if isinstance(n.value, int):
                return Val("nat_lit", str(n.value)) if n.value >= 0 else Val("Z", f"({n.value})%Z")
            if isinstance(n.value, float):
                return Val("R", lit(n.value))
            if isinstance(n.value, complex) and n.value.real == 0:
                return Val("C", f"(Cmult (RtoC {lit(n.value.imag)}) Ci)")
            if isinstance(n.value, str):
                return Val("str", f'"{n.value}"%string')
            fail(n, "constant")
        if isinstance(n, ast.Name):
            if n.id not in self.env:
                fail(n, f"unknown name {n.id}")
            return self.env[n.id]
        if isinstance(n, ast.Attribute):
            if isinstance(n.value, ast.Name) and n.value.id == "np" and n.attr == "pi":
                return Val("R", "PI")
            fail(n, "attribute")
        if isinstance(n, ast.UnaryOp) and isinstance(n.op, ast.USub):
            v = self.expr(n.operand)
            if v.is_arr():
                neg = "Copp" if v.ty == "arrC" else "Ropp"
                return Val(v.ty, length=v.length, elem=lambda k, v=v, neg=neg: f"({neg} {v.elem(k)})")
            if v.ty == "nat_lit":
                return Val("Z", f"(-{v.term})%Z")
            if v.ty == "Z":
                return Val("Z", f"(Z.opp {v.term})")
            if v.ty == "C":
                return Val("C", f"(Copp {v.term})")
            return Val("R", f"(Ropp {to_R(v, n)})")
        if isinstance(n, ast.BinOp):
            a, b = self.expr(n.left), self.expr(n.right)
            if a.is_arr() or b.is_arr():
                la = a.length if a.is_arr() else b.length
                if a.is_arr() and b.is_arr() and a.length != b.length:
                    # not syntactically equal: emit a proof obligation (closed by lia); a changed split index breaks it
                    self.obligations.append((a.length, b.length))

                def at(v, k):
                    if v.is_arr():
                        return Val("C" if v.ty == "arrC" else "R", v.elem(k))
                    return v
                probe = self.scalar_bin(n.op, at(a, "k"), at(b, "k"), n)
                return Val("arrC" if probe.ty == "C" else "arrR", length=la,
                           elem=lambda k, a=a, b=b, op=n.op, n=n: self.scalar_bin(op, at(a, k), at(b, k), n).term)
            return self.scalar_bin(n.op, a, b, n)
        if isinstance(n, ast.Call):
            return self.call(n)
        if isinstance(n, ast.Subscript):
            return self.subscript(n)
        fail(n, "expression")

    def as_nat(self, n):
        """int(npts) or a natural-valued expression."""
        if isinstance(n, ast.Call) and isinstance(n.func, ast.Name) and n.func.id == "int" and len(n.args) == 1:
            return self.as_nat(n.args[0])
        v = self.expr(n)
        if v.ty == "nat":
            return v.term
        if v.ty == "nat_lit":
            return f"{v.term}%nat"
        fail(n, "a natural number is required here")

    def call(self, n):
        f = n.func
        name = None
        if isinstance(f, ast.Attribute) and isinstance(f.value, ast.Name) and f.value.id == "np":
            name = "np." + f.attr
        elif isinstance(f, ast.Name):
            name = f.id
        elif isinstance(f, ast.Attribute) and f.attr == "round" and isinstance(f.value, ast.Call):
            inner = self.expr(f.value)
            if len(n.args) == 1 and isinstance(n.args[0], ast.Constant) and n.args[0].value == 6 and inner.ty == "arrR":
                self.section_vars.add("round6")
                return Val("arrR", length=inner.length, elem=lambda k: f"(round6 {inner.elem(k)})")
            fail(n, ".round")
        if name == "np.linspace":
            kw = {k.arg: k.value for k in n.keywords}
            if len(n.args) != 3 or set(kw) != {"endpoint"} or not (isinstance(kw["endpoint"], ast.Constant) and kw["endpoint"].value is False):
                fail(n, "only np.linspace(a, b, n, endpoint=False) is supported")
            a, b = to_R(self.expr(n.args[0]), n), to_R(self.expr(n.args[1]), n)
            cnt = self.as_nat(n.args[2])
            return Val("arrR", length=cnt, elem=lambda k: f"(linspace_open {a} {b} {cnt} {k})")
        if name in ("np.sin", "np.exp"):
            v = self.expr(n.args[0])
            fn = {"np.sin": "sin", "np.exp": "exp"}[name]
            if v.is_arr():
                if v.ty != "arrR":
                    fail(n, "real argument expected")
                return Val("arrR", length=v.length, elem=lambda k: f"({fn} {v.elem(k)})")
            return Val("R", f"({fn} {to_R(v, n)})")
        if name == "np.zeros":
            cnt = self.as_nat(n.args[0])
            return Val("arrR", length=cnt, elem=lambda k: "(IZR 0%Z)")
        if name == "np.real":
            v = self.expr(n.args[0])
            if v.ty != "arrC":
                fail(n, "np.real of a complex array expected")
            return Val("arrR", length=v.length, elem=lambda k: f"(fst {v.elem(k)})")
        if name in ("fft", "ifft"):
            v = self.expr(n.args[0])
            self.section_vars.add(name)
            arr = self.bind_array(v if v.ty == "arrC" else Val("arrC", length=v.length, elem=lambda k: f"(RtoC {v.elem(k)})"))
            return Val("arrC", length=v.length, elem=lambda k: f"({name} {v.length} {arr} {k})")
        if name == "fftfreq":
            cnt = self.as_nat(n.args[0])
            d = to_R(self.expr(n.args[1]), n)
            return Val("arrR", length=cnt, elem=lambda k: f"(fftfreq {cnt} {d} {k})")
        if name == "np.interp":
            x, xp, fp = (self.expr(a) for a in n.args)
            if not (x.ty == "arrR" and xp.ty == "arrR" and fp.ty == "arrR"):
                fail(n, "np.interp on real arrays expected")
            self.section_vars.add("interp")
            xpn, fpn = self.bind_array(xp), self.bind_array(fp)
            return Val("arrR", length=x.length, elem=lambda k: f"(interp {xp.length} {xpn} {fpn} {x.elem(k)})")
        if name == "np.concatenate":
            if not (len(n.args) == 1 and isinstance(n.args[0], ast.Tuple) and len(n.args[0].elts) == 2):
                fail(n, "np.concatenate((a, b)) expected")
            a, b = (self.expr(e) for e in n.args[0].elts)
            if a.ty != b.ty or not a.is_arr():
                fail(n, "concatenate of two arrays of one type")
            an, bn = self.bind_array(a), self.bind_array(b)
            return Val(a.ty, length=f"(Nat.add {a.length} {b.length})", elem=lambda k: f"(concat_arr {an} {a.length} {bn} {k})")
        if name == "np.diff":
            v = self.expr(n.args[0])
            if v.ty != "arrR":
                fail(n, "np.diff of a real array")
            return Val("arrR", length=f"(Nat.pred {v.length})", elem=lambda k: f"(Rminus {v.elem(f'(S {k})')} {v.elem(k)})")
        if name == "len":
            v = self.expr(n.args[0])
            if not v.is_arr():
                fail(n, "len of an array")
            return Val("nat", v.length)
        if name == "int":
            return Val("nat", self.as_nat(n.args[0]))
        if name in self.known:
            sig = self.known[name]
            args = {}
            for (pn, _pt), a in zip(sig, n.args):
                args[pn] = a
            for k in n.keywords:
                args[k.arg] = k.value
            terms = []
            for pn, pt in sig:
                if pn not in args:
                    fail(n, f"missing argument {pn} in call of {name}")
                v = self.expr(args[pn])
                terms.append(self.coerce(v, pt, n))
            ret = self.known[name + "::ret"]
            term = f"({name}_gen {' '.join(terms)})"
            if ret[0] in ("arrR", "arrC"):
                length = terms[[p for p, _ in sig].index(ret[1])]
                return Val(ret[0], length=length, elem=lambda k: f"({term} {k})")
            return Val(ret[0], term)
        if name in self.env and self.env[name].ty == "fun":
            # func(time, **kwargs): the user function receives the array and the opaque keyword dict unchanged
            if len(n.args) == 1 and len(n.keywords) == 1 and n.keywords[0].arg is None:
                t = self.expr(n.args[0])
                kw = self.expr(n.keywords[0].value)
                tn = self.bind_array(t)
                return Val("arrR", length=t.length, elem=lambda k: f"({name} {tn} {kw.term} {k})")
        fail(n, f"call of {name}")

    def coerce(self, v, pt, node):
        if pt == "R":
            return to_R(v, node)
        if pt == "C":
            return to_C(v, node)
        if pt == "nat":
            if v.ty == "nat":
                return v.term
            if v.ty == "nat_lit":
                return f"{v.term}%nat"
        if pt == "Z":
            if v.ty == "Z":
                return v.term
            if v.ty == "nat_lit":
                return f"({v.term})%Z"
        if pt in ("str", "bool") and v.ty == pt:
            return v.term
        fail(node, f"cannot pass a {v.ty} where a {pt} is expected")

    def bind_array(self, v):
        """Name an array value with a let so that it can be passed to a primitive as a function."""
        self.fresh += 1
        nm = f"arr{self.fresh}"
        self.lets.append(f"let {nm} := (fun k : nat => {v.elem('k')}) in")
        return nm

    def subscript(self, n):
        v = self.expr(n.value)
        if not v.is_arr():
            fail(n, "subscript of a non-array")
        s = n.slice
        if isinstance(s, ast.Slice):
            if s.step is not None:
                if s.lower is None and s.upper is None and isinstance(s.step, ast.UnaryOp) and isinstance(s.step.op, ast.USub) \
                        and isinstance(s.step.operand, ast.Constant) and s.step.operand.value == 1:
                    vn = self.bind_array(v)
                    return Val(v.ty, length=v.length, elem=lambda k: f"(rev_arr {vn} {v.length} {k})")
                fail(n, "slice step")
            if s.lower is None and s.upper is not None:
                e = self.as_nat(s.upper)
                return Val(v.ty, length=e, elem=v.elem)
            if s.lower is not None and s.upper is None:
                e = self.as_nat(s.lower)
                return Val(v.ty, length=f"(Nat.sub {v.length} {e})", elem=lambda k: v.elem(f"(Nat.add {k} {e})"))
            fail(n, "slice")
        if isinstance(s, ast.UnaryOp) and isinstance(s.op, ast.USub) and isinstance(s.operand, ast.Constant) and s.operand.value == 1:
            return Val("C" if v.ty == "arrC" else "R", v.elem(f"(Nat.pred {v.length})"))
        if isinstance(s, ast.Constant) and isinstance(s.value, int) and s.value >= 0:
            return Val("C" if v.ty == "arrC" else "R", v.elem(f"{s.value}%nat"))
        fail(n, "subscript")

    # ---- conditions (Props) ----
    def prop(self, n):
        if isinstance(n, ast.UnaryOp) and isinstance(n.op, ast.Not):
            return f"(~ {self.prop(n.operand)})"
        if isinstance(n, ast.Compare) and len(n.ops) == 1:
            op, l, r = n.ops[0], n.left, n.comparators[0]
            if isinstance(op, (ast.In, ast.NotIn)) and isinstance(r, ast.List):
                v = self.expr(l)
                if v.ty != "str":
                    fail(n, "membership of a string expected")
                alts = " \\/ ".join(f"{v.term} = {self.expr(e).term}" for e in r.elts)
                return f"({alts})" if isinstance(op, ast.In) else f"(~ ({alts}))"
            # np.sum(<bool array>) == len(<array>)  <=>  every element satisfies the comparison
            if isinstance(op, ast.Eq) and isinstance(l, ast.Call) and isinstance(l.func, ast.Attribute) and l.func.attr == "sum" \
                    and isinstance(r, ast.Call) and isinstance(r.func, ast.Name) and r.func.id == "len":
                inner = l.args[0]
                if isinstance(inner, ast.Compare) and len(inner.ops) == 1 and isinstance(inner.ops[0], ast.Gt):
                    a = self.expr(inner.left)
                    b = self.expr(inner.comparators[0])
                    la = self.expr(r.args[0])
                    if a.is_arr() and la.is_arr() and a.length == la.length:
                        return f"(forall i : nat, (i < {a.length})%nat -> Rgt {a.elem('i')} {to_R(b, n)})"
                fail(n, "np.sum(...) == len(...) idiom")
            a, b = self.expr(l), self.expr(r)
            rel = {ast.Gt: "Rgt", ast.GtE: "Rge", ast.Lt: "Rlt", ast.LtE: "Rle", ast.Eq: "eq"}.get(type(op))
            if rel is None or a.is_arr() or b.is_arr():
                fail(n, "comparison")
            if a.ty == "str" and b.ty == "str" and rel == "eq":
                return f"({a.term} = {b.term})"
            return f"({rel} {to_R(a, n)} {to_R(b, n)})"
        fail(n, "condition")

    def cond_bool(self, n):
        """A decidable condition as a Gallina bool (string equality / a bool parameter)."""
        if isinstance(n, ast.Name) and self.env.get(n.id, Val("?")).ty == "bool":
            return self.env[n.id].term
        if isinstance(n, ast.Compare) and len(n.ops) == 1 and isinstance(n.ops[0], ast.Eq):
            a, b = self.expr(n.left), self.expr(n.comparators[0])
            if a.ty == "str" and b.ty == "str":
                return f"(String.eqb {a.term} {b.term})"
        fail(n, "only string equality or a bool parameter can be branched on")

    # ---- statements ----
    def assign(self, name, v):
        if v.is_arr():
            self.lets.append(f"let {name} := (fun k : nat => {v.elem('k')}) in")
            self.env[name] = Val(v.ty, length=v.length, elem=lambda k, name=name: f"({name} {k})")
        elif v.ty == "nat":
            # N = len(signal), split = (npts + 1) // 2: an alias, so that lengths still match syntactically and the
            # length obligations stay closed terms over the parameters
            self.env[name] = Val("nat", v.term)
        else:
            ty = "nat" if v.ty == "nat_lit" else v.ty
            term = f"{v.term}%nat" if v.ty == "nat_lit" else v.term
            self.lets.append(f"let {name} := {term} in")
            self.env[name] = Val(ty, name)

    def used_later(self, name, rest):
        for st in rest:
            for nd in ast.walk(st):
                if isinstance(nd, ast.Name) and nd.id == name and isinstance(nd.ctx, ast.Load):
                    if not (isinstance(st, ast.Expr) and is_log(st)):
                        return True
        return False

    def block(self, stmts):
        """Translate statements; returns the Val of the `return`, or None."""
        for i, st in enumerate(stmts):
            if isinstance(st, ast.Expr) and (isinstance(st.value, ast.Constant) or is_log(st)):
                continue                                     # docstring / logging
            if isinstance(st, ast.Pass):
                continue
            if isinstance(st, ast.Assign) and len(st.targets) == 1:
                t = st.targets[0]
                if isinstance(t, ast.Name):
                    if not self.keep_all and not self.used_later(t.id, stmts[i + 1:]):
                        continue                             # value only logged (or dead)
                    self.assign(t.id, self.expr(st.value))
                    continue
                if isinstance(t, ast.Subscript) and isinstance(t.value, ast.Name) and isinstance(t.slice, ast.Compare):
                    c = t.slice
                    arr = self.env.get(t.value.id)
                    if arr and arr.ty == "arrC" and isinstance(c.left, ast.Name) and c.left.id == t.value.id \
                            and isinstance(c.ops[0], ast.Eq) and isinstance(c.comparators[0], ast.Constant) and c.comparators[0].value == 0:
                        g = to_C(self.expr(st.value), st)
                        nm = t.value.id
                        self.lets.append(f"let {nm} := mask_zero {nm} {g} in")
                        continue
                fail(st, "assignment target")
            if isinstance(st, ast.AugAssign) and isinstance(st.target, ast.Name):
                cur = self.env[st.target.id]
                v = self.scalar_bin(st.op, cur, self.expr(st.value), st)
                self.assign(st.target.id, v)
                continue
            if isinstance(st, ast.If):
                if len(st.body) == 1 and isinstance(st.body[0], ast.Raise) and not st.orelse:
                    exc = st.body[0].exc
                    exn = exc.func.id if isinstance(exc, ast.Call) else exc.id
                    t = st.test
                    if isinstance(t, ast.UnaryOp) and isinstance(t.op, ast.Not):
                        self.guards.append((self.prop(t.operand), exn))      # `if not X: raise` passes iff X
                    elif isinstance(t, ast.Compare) and len(t.ops) == 1 and isinstance(t.ops[0], ast.NotIn):
                        pos = ast.Compare(left=t.left, ops=[ast.In()], comparators=t.comparators)
                        self.guards.append((self.prop(pos), exn))            # `if x not in L: raise` passes iff x in L
                    else:
                        self.guards.append((f"(~ {self.prop(t)})", exn))
                    continue
                if all(isinstance(b, ast.Pass) for b in st.body) and not st.orelse:
                    continue
                self.if_chain(st)
                continue
            if isinstance(st, ast.Return):
                return self.expr(st.value)
            fail(st, "statement")
        return None

    def if_chain(self, st):
        """if/elif on decidable conditions, every branch assigning the same single variable."""
        branches = []
        cur = st
        while True:
            branches.append((self.cond_bool(cur.test), cur.body))
            if len(cur.orelse) == 1 and isinstance(cur.orelse[0], ast.If):
                cur = cur.orelse[0]
            else:
                tail = cur.orelse
                break
        results, var, ty, length = [], None, None, None
        for cond, body in branches + ([("else", tail)] if tail else []):
            sub = Fn(self.name, {}, self.known, self.section_vars)
            sub.env = dict(self.env)
            sub.fresh = self.fresh + 100 * (len(results) + 1)
            sub.keep_all = True
            sub.block(body)
            assigned = [k for k in sub.env if k not in self.env or sub.env[k] is not self.env[k]]
            tops = [k for k in assigned if not k.startswith("arr")]
            if len(set(tops)) != 1:
                fail(st, f"each branch must assign exactly one variable, got {tops}")
            var = tops[0]
            v = sub.env[var]
            ty, length = v.ty, v.length
            results.append((cond, "\n      ".join(sub.lets) + f"\n      {var}", v.ty))
        tys = {r[2] for r in results}
        if tys == {"Z", "nat"}:
            results = [(c, b if t == "Z" else f"Z.of_nat ({b})", "Z") for c, b, t in results]
            ty = "Z"
        elif len(tys) != 1:
            fail(st, f"branches assign different types {tys}")
        results = [(c, b) for c, b, _t in results]
        default = {"arrC": "(fun _ : nat => RtoC (IZR 0%Z))", "arrR": "(fun _ : nat => IZR 0%Z)", "Z": "0%Z", "R": "(IZR 0%Z)"}.get(ty)
        if default is None:
            fail(st, f"no default for type {ty}")
        text = ""
        closed = False
        for cond, body in results:
            if cond == "else":
                text += f"({body})"
                closed = True
            else:
                text += f"if {cond} then ({body})\n    else "
        if not closed:
            text += f"{default} (* Python: the variable stays unbound here (UnboundLocalError) *)"
        self.lets.append(f"let {var} :=\n    {text} in")
        if ty in ("arrR", "arrC"):
            self.env[var] = Val(ty, length=length, elem=lambda k, var=var: f"({var} {k})")
        else:
            self.env[var] = Val(ty, var)


# ------------------------------------------------------------------------------------------------------------------
# Source-level normalisation before translation: module-level constants are substituted, calls to small module-level
# helper functions are inlined (parameters replaced by the argument expressions, locals renamed), `if` on a literal is
# folded and tuple literals in membership tests are read as lists.  The translated kernels are pure numeric code, so
# substituting an argument expression for a parameter preserves meaning; anything outside this shape is left alone and
# the translation then fails closed as before.  Effect: extracting a helper, naming a constant or passing a literal flag
# regenerates (up to let-bound names) the same Gallina text, and the proofs in coq/Numeric still apply.
class Inliner:
    def __init__(self, tree, exclude):
        self.funcs = {n.name: n for n in tree.body if isinstance(n, ast.FunctionDef) and n.name not in exclude}
        self.consts = {}
        for n in tree.body:
            if isinstance(n, ast.Assign) and len(n.targets) == 1 and isinstance(n.targets[0], ast.Name) and self.const_expr(n.value):
                self.consts[n.targets[0].id] = n.value
        self.k = 0
        self.depth = 0
        self.aliases = {}

    def const_expr(self, e):
        if isinstance(e, ast.Constant):
            return True
        if isinstance(e, (ast.Tuple, ast.List)):
            return all(self.const_expr(x) for x in e.elts)
        if isinstance(e, ast.BinOp):
            return self.const_expr(e.left) and self.const_expr(e.right)
        if isinstance(e, ast.UnaryOp):
            return self.const_expr(e.operand)
        if isinstance(e, ast.Attribute):
            return isinstance(e.value, ast.Name) and e.value.id == "np" and e.attr == "pi"
        if isinstance(e, ast.Name):
            return e.id in self.consts
        return False

    @staticmethod
    def stored_names(nodes):
        out = set()
        for st in nodes:
            for n in ast.walk(st):
                if isinstance(n, ast.Name) and isinstance(n.ctx, (ast.Store, ast.Del)):
                    out.add(n.id)
        return out

    def run(self, fdef):
        import copy
        fdef = copy.deepcopy(fdef)
        self.locals = {a.arg for a in fdef.args.args} | self.stored_names(fdef.body)
        fdef.body = self.stmts(fdef.body)
        return ast.fix_missing_locations(fdef)

    # ---- expressions: constants, tuples in membership tests, helper calls (collected into `pre`) ----
    def expr(self, e, pre):
        me = self

        class T(ast.NodeTransformer):
            def visit_Name(self, n):
                if isinstance(n.ctx, ast.Load) and n.id in me.aliases:
                    import copy
                    return copy.deepcopy(me.aliases[n.id])
                if isinstance(n.ctx, ast.Load) and n.id in me.consts and n.id not in me.locals:
                    import copy
                    return self.visit(copy.deepcopy(me.consts[n.id]))
                return n

            def visit_Compare(self, n):
                self.generic_visit(n)
                if len(n.ops) == 1 and isinstance(n.ops[0], (ast.In, ast.NotIn)) and isinstance(n.comparators[0], ast.Tuple):
                    n.comparators[0] = ast.List(elts=n.comparators[0].elts, ctx=ast.Load())
                return n

            def visit_IfExp(self, n):
                self.generic_visit(n)
                if isinstance(n.test, ast.Constant):
                    return n.body if n.test.value else n.orelse
                return n

            def visit_Call(self, n):
                self.generic_visit(n)
                if isinstance(n.func, ast.Name) and n.func.id in me.funcs and n.func.id not in me.locals:
                    stmts, ret = me.expand(n)
                    pre.extend(stmts)
                    return ret
                return n
        return T().visit(e)

    def expand(self, call):
        import copy
        g = self.funcs[call.func.id]
        if self.depth > 6:
            raise Unsupported(f"helper {g.name}: inlining too deep (recursion?)")
        if g.decorator_list:
            raise Unsupported(f"helper {g.name}: decorated helpers (caches, ...) are not inlined")
        a = g.args
        if a.vararg or a.kwarg or a.kwonlyargs or a.posonlyargs:
            raise Unsupported(f"helper {g.name}: unsupported parameter kinds")
        names = [x.arg for x in a.args]
        bind = {}
        for nm, arg in zip(names, call.args):
            bind[nm] = arg
        if len(call.args) > len(names):
            raise Unsupported(f"helper {g.name}: too many arguments")
        for kw in call.keywords:
            if kw.arg is None or kw.arg not in names or kw.arg in bind:
                raise Unsupported(f"helper {g.name}: keyword {kw.arg}")
            bind[kw.arg] = kw.value
        for nm, d in zip(names[len(names) - len(a.defaults):], a.defaults):
            bind.setdefault(nm, d)
        if set(bind) != set(names):
            raise Unsupported(f"helper {g.name}: missing arguments")
        body = [st for st in g.body if not (isinstance(st, ast.Expr) and isinstance(st.value, ast.Constant) and isinstance(st.value.value, str))]
        for st in body:
            for n in ast.walk(st):
                if isinstance(n, (ast.FunctionDef, ast.Lambda, ast.For, ast.While, ast.Try, ast.With, ast.Global, ast.Nonlocal)):
                    raise Unsupported(f"helper {g.name}: {type(n).__name__} in a helper is not inlined")
        rets = [n for st in body for n in ast.walk(st) if isinstance(n, ast.Return)]
        if len(rets) > 1 or (rets and body[-1] is not rets[0]):
            raise Unsupported(f"helper {g.name}: only a single trailing return is inlined")
        self.k += 1
        tag = f"{g.name.strip('_')}{self.k}_"
        stored = self.stored_names(body)
        rename = {nm: tag + nm for nm in stored}
        pre = []
        for nm in names:
            if nm in stored:             # a parameter the helper reassigns: it becomes a local initialised with the argument
                pre.append(ast.Assign(targets=[ast.Name(id=rename[nm], ctx=ast.Store())], value=copy.deepcopy(bind[nm]), lineno=call.lineno))

        class S(ast.NodeTransformer):
            def visit_Name(self, n):
                if n.id in rename:
                    return ast.copy_location(ast.Name(id=rename[n.id], ctx=n.ctx), n)
                if n.id in bind and isinstance(n.ctx, ast.Load):
                    return copy.deepcopy(bind[n.id])
                return n
        new_body = [S().visit(copy.deepcopy(st)) for st in body]
        saved = self.locals
        self.locals = self.locals | set(rename.values())
        self.depth += 1
        try:
            ret = ast.Constant(value=None)
            if rets:
                last = new_body.pop()
                out = self.stmts(new_body)
                inner = []
                ret = self.expr(last.value, inner) if last.value is not None else ast.Constant(value=None)
                out += inner
            else:
                out = self.stmts(new_body)
        finally:
            self.depth -= 1
            self.locals = saved
        self.locals = self.locals | set(rename.values())
        return pre + out, ret

    # ---- statements ----
    def stmts(self, body):
        out = []
        for st in body:
            out += self.stmt(st)
        return out

    def stmt(self, st):
        pre = []
        if isinstance(st, ast.Expr):
            if isinstance(st.value, ast.Call) and isinstance(st.value.func, ast.Name) and st.value.func.id in self.funcs \
                    and st.value.func.id not in self.locals:
                stmts, _ret = self.expand(st.value)          # a procedure call (validation helper): its statements, result dropped
                return stmts
            return [st]
        if isinstance(st, ast.Assign) and len(st.targets) == 1 and isinstance(st.targets[0], ast.Name):
            v = st.value
            # exp = np.exp: a local alias of a numpy function is substituted where it is used
            if isinstance(v, ast.Attribute) and isinstance(v.value, ast.Name) and v.value.id == "np" and v.attr != "pi":
                self.aliases[st.targets[0].id] = v
                return []
            # x = a if c else b   is read as   if c: x = a  else: x = b
            if isinstance(v, ast.IfExp):
                import copy
                t = st.targets[0]
                new = ast.If(test=v.test,
                             body=[ast.Assign(targets=[copy.deepcopy(t)], value=v.body, lineno=st.lineno)],
                             orelse=[ast.Assign(targets=[copy.deepcopy(t)], value=v.orelse, lineno=st.lineno)])
                return self.stmt(ast.copy_location(new, st))
        if isinstance(st, (ast.Assign, ast.AugAssign, ast.AnnAssign, ast.Return)):
            if st.value is not None:
                st.value = self.expr(st.value, pre)
            return pre + [st]
        if isinstance(st, ast.If):
            st.test = self.expr(st.test, pre)
            if isinstance(st.test, ast.Constant):
                return pre + self.stmts(st.body if st.test.value else st.orelse)
            st.body = self.stmts(st.body) or [ast.Pass()]
            st.orelse = self.stmts(st.orelse)
            return pre + [st]
        return [st]


def is_log(st):
    v = st.value
    return isinstance(v, ast.Call) and isinstance(v.func, ast.Attribute) and isinstance(v.func.value, ast.Name) and v.func.value.id == "log"


COQTY = {"R": "R", "C": "C", "nat": "nat", "Z": "Z", "str": "string", "bool": "bool", "arrR": "nat -> R", "arrC": "nat -> C"}


def find_function(tree, path):
    cur = tree.body
    node = None
    for name in path:
        node = next((n for n in cur if isinstance(n, (ast.FunctionDef, ast.ClassDef)) and n.name == name), None)
        if node is None:
            raise Unsupported(f"{'.'.join(path)} not found")
        cur = node.body
    return node


def translate(fdef, cname, sig, ret, known, array_lens=None, opaque=None, tree=None, exclude=()):
    """sig: [(param, type)], ret: (type, length param or None). Returns (text, section variables)."""
    if tree is not None:
        fdef = Inliner(tree, set(exclude) | {k for k in known if "::" not in k} | {fdef.name}).run(fdef)
    pnames = [a.arg for a in fdef.args.args]
    if pnames != [p for p, _ in sig]:
        raise Unsupported(f"{cname}: signature changed: {pnames} (expected {[p for p, _ in sig]})")
    params, binders = {}, []
    for p, t in sig:
        if t in ("arrR", "arrC"):
            ln = (array_lens or {})[p]
            params[p] = Val(t, length=ln, elem=lambda k, p=p: f"({p} {k})")
            if ln not in [b.split()[0].strip("(") for b in binders]:
                binders.append(f"({ln} : nat)")
            binders.append(f"({p} : {COQTY[t]})")
        elif t == "fun":
            params[p] = Val("fun", p)
            binders.append(f"({p} : (nat -> R) -> K -> nat -> R)")
        elif t == "opaque":
            params[p] = Val("opaque", p)
            binders.append(f"({p} : K)")
        else:
            params[p] = Val(t, p)
            binders.append(f"({p} : {COQTY[t]})")
    secvars = set()
    fn = Fn(cname, params, known, secvars)
    res = fn.block(fdef.body)
    if res is None:
        raise Unsupported(f"{cname}: no return")
    if res.ty != ret[0]:
        raise Unsupported(f"{cname}: returns {res.ty}, expected {ret[0]}")
    body = "\n  ".join(fn.lets)
    out = []
    if res.is_arr():
        out.append(f"Definition {cname}_gen {' '.join(binders)} : nat -> {'C' if res.ty == 'arrC' else 'R'} :=\n  {body}\n  (fun k : nat => {res.elem('k')}).")
        out.append(f"Definition {cname}_len {' '.join(binders)} : nat :=\n  {res.length}.")
    else:
        out.append(f"Definition {cname}_gen {' '.join(binders)} : {COQTY[res.ty]} :=\n  {body}\n  {res.term}.")
    nat_binders = " ".join(b for b in binders if b.endswith(": nat)"))
    for i, (la, lb) in enumerate(fn.obligations):
        out.append(f"(* elementwise operation on arrays of these two lengths: they must agree *)\n"
                   f"Lemma {cname}_len_ok{i} : forall {nat_binders}, {la} = {lb}.\n"
                   f"Proof. intros. lia. Qed.")
    for i, (g, exn) in enumerate(fn.guards):
        # a guard may mention let-bound names: wrap it in the same lets
        out.append(f"(* Python: `if not <guard {i}>: raise {exn}` - checked in this order before the body *)\n"
                   f"Definition {cname}_guard{i} {' '.join(binders)} : Prop :=\n  {guard_lets(fn.lets, g)}{g}.\n"
                   f"Definition {cname}_guard{i}_exn : string := \"{exn}\"%string.")
    return "\n\n".join(out), secvars


def guard_lets(lets, g):
    """Only the lets that were emitted before the guard and that it mentions (guards come first in these functions)."""
    keep = [l for l in lets if l.split()[1] in g]
    return ("\n  ".join(keep) + "\n  ") if keep else ""


HEADER = """(* GENERATED by translator/py2coq.py from {src} - do not edit.  Regenerated on every check. *)
From Coq Require Import Reals ZArith String List Lia ZifyNat.
From Coquelicot Require Import Coquelicot.
From BB Require Import Numeric.NumpyPrims.
Import ListNotations.
Ltac Zify.zify_post_hook ::= Z.to_euclidean_division_equations.
Open Scope R_scope.
"""


def gen_pulseatoms():
    path = os.path.join(SRC, "broadbean.py")
    tree = ast.parse(open(path).read())
    real4 = lambda names: [(n, "R") for n in names] + [("SR", "R"), ("npts", "nat")]   # noqa: E731
    sigs = {
        "sine": real4(["freq", "ampl", "off", "phase"]),
        "ramp": real4(["start", "stop"]),
        "waituntil": real4(["dummy"]),
        "gaussian": real4(["ampl", "sigma", "mu", "offset"]),
        "gaussian_smooth_cutoff": real4(["ampl", "sigma", "mu", "offset"]),
        "arb_func": [("func", "fun"), ("kwargs", "opaque"), ("SR", "R"), ("npts", "nat")],
    }
    parts = [HEADER.format(src="src/broadbean/broadbean.py (class PulseAtoms)")]
    parts.append("Section PulseAtoms.\nContext {K : Type}.   (* the opaque keyword dict of arb_func *)\n")
    for name, sig in sigs.items():
        fdef = find_function(tree, ["PulseAtoms", name])
        text, sv = translate(fdef, "PA_" + name, sig, ("arrR", "npts"), {}, tree=tree)
        if sv:
            raise Unsupported(f"PulseAtoms.{name} uses {sv}")
        parts.append(text)
    parts.append("End PulseAtoms.")
    return "\n\n".join(parts) + "\n"


def gen_ripasso():
    path = os.path.join(SRC, "ripasso.py")
    tree = ast.parse(open(path).read())
    known = {}
    parts = [HEADER.format(src="src/broadbean/ripasso.py")]
    parts.append("Definition Rpowz (x : R) (n : Z) : R :=\n  match n with Z0 => 1 | Zpos p => pow x (Pos.to_nat p) | Zneg p => / pow x (Pos.to_nat p) end.\n")
    parts.append("Section Ripasso.\n(* numpy.fft.fft / ifft of a length-n array, np.interp(x, xp, fp) at one abscissa and ndarray.round(6)\n"
                 "   are external code: section variables, whose assumed contract is stated where it is used. *)\n"
                 "Variable fft ifft : nat -> (nat -> C) -> nat -> C.\nVariable interp : nat -> (nat -> R) -> (nat -> R) -> R -> R.\n"
                 "Variable round6 : R -> R.\n")
    sig_rc = [("SR", "R"), ("npts", "nat"), ("f_cut", "R"), ("kind", "str"), ("order", "Z"), ("DCgain", "R")]
    fdef = find_function(tree, ["_rcFilter"])
    top = {"_rcFilter", "applyRCFilter", "applyInverseRCFilter", "applyCustomTransferFunction"}
    text, _ = translate(fdef, "_rcFilter", sig_rc, ("arrC", "npts"), known, tree=tree, exclude=top)
    parts.append(text)
    known["_rcFilter"] = sig_rc
    known["_rcFilter::ret"] = ("arrC", "npts")
    sig_ap = [("signal", "arrR"), ("SR", "R"), ("kind", "str"), ("f_cut", "R"), ("order", "Z"), ("DCgain", "R")]
    for name in ("applyRCFilter", "applyInverseRCFilter"):
        fdef = find_function(tree, [name])
        text, _ = translate(fdef, name, sig_ap, ("arrR", None), known, array_lens={"signal": "signal_len"}, tree=tree, exclude=top)
        parts.append(text)
    sig_ct = [("signal", "arrR"), ("SR", "R"), ("tf_freqs", "arrR"), ("tf_amp", "arrR"), ("invert", "bool")]
    fdef = find_function(tree, ["applyCustomTransferFunction"])
    text, _ = translate(fdef, "applyCustomTransferFunction", sig_ct, ("arrR", None), known,
                        array_lens={"signal": "signal_len", "tf_freqs": "tf_len", "tf_amp": "tf_len"}, tree=tree, exclude=top)
    parts.append(text)
    parts.append("End Ripasso.")
    return "\n\n".join(parts) + "\n"


def zexpr(n):
    """An integer expression over constants and `seqlen` (the bounds of the sequencing ranges)."""
    if isinstance(n, ast.Constant) and isinstance(n.value, int):
        return f"({n.value})%Z"
    if isinstance(n, ast.UnaryOp) and isinstance(n.op, ast.USub):
        return f"(Z.opp {zexpr(n.operand)})"
    if isinstance(n, ast.Name) and n.id == "seqlen":
        return "seqlen"
    if isinstance(n, ast.BinOp) and isinstance(n.op, (ast.Add, ast.Sub)):
        return f"(Z.{'add' if isinstance(n.op, ast.Add) else 'sub'} {zexpr(n.left)} {zexpr(n.right)})"
    raise Unsupported(f"integer bound: {ast.unparse(n)}")


def gen_guards():
    """The nested rescaler of outputForAWGFile and the numeric range guards of both back ends."""
    path = os.path.join(SRC, "sequence.py")
    tree = ast.parse(open(path).read())
    cls = find_function(tree, ["Sequence"])
    parts = [HEADER.format(src="src/broadbean/sequence.py (outputForAWGFile / outputForSEQXFile)")]
    awg = find_function(tree, ["Sequence", "outputForAWGFile"])
    resc = next((n for n in awg.body if isinstance(n, ast.FunctionDef) and n.name == "rescaler"), None)
    if resc is None:
        raise Unsupported("rescaler not found in outputForAWGFile")
    text, _ = translate(resc, "rescaler", [("val", "R"), ("ampl", "R"), ("off", "R")], ("R", None), {})
    parts.append(text)
    for meth in ("outputForAWGFile", "outputForSEQXFile"):
        f = find_function(tree, ["Sequence", meth])
        items = []
        for nd in sorted((x for x in ast.walk(f) if isinstance(x, ast.If)), key=lambda x: x.lineno):
            if isinstance(nd, ast.If) and len(nd.body) == 1 and isinstance(nd.body[0], ast.Raise):
                exc = nd.body[0].exc
                exn = exc.func.id if isinstance(exc, ast.Call) and isinstance(exc.func, ast.Name) else "?"
                items.append((ast.unparse(nd.test), exn))
        # the guards in source order, as data: (condition text, exception); theorems in Numeric/Rescale.v pin them
        # numeric content of the membership guards, so that the hand model's constants are tied to the source by proof
        for nd in sorted((x for x in ast.walk(f) if isinstance(x, ast.If)), key=lambda x: x.lineno):
            t = nd.test
            if not (len(nd.body) == 1 and isinstance(nd.body[0], ast.Raise)):
                continue
            if isinstance(t, ast.Compare) and len(t.ops) == 1 and isinstance(t.ops[0], ast.NotIn) and isinstance(t.left, ast.Name):
                var, rhs = t.left.id, t.comparators[0]
                if isinstance(rhs, (ast.List, ast.Tuple)) and all(isinstance(e, ast.Constant) and isinstance(e.value, int) for e in rhs.elts):
                    parts.append(f"Definition {meth}_{var}_allowed : list Z := [" + "; ".join(f"({e.value})%Z" for e in rhs.elts) + "].")
                elif isinstance(rhs, ast.Call) and isinstance(rhs.func, ast.Name) and rhs.func.id == "range" and len(rhs.args) == 2:
                    parts.append(f"Definition {meth}_{var}_range (seqlen : Z) : Z * Z := ({zexpr(rhs.args[0])}, {zexpr(rhs.args[1])}).")
                # any other membership guard (dictionary keys, ...) carries no numeric constant; a sequencing guard
                # rewritten into an unsupported form leaves its definition missing and Numeric/Rescale.v fails to build
            elif isinstance(t, ast.Compare) and len(t.ops) == 1 and isinstance(t.ops[0], ast.Lt) and ast.unparse(t.left) == "len(wfm)" \
                    and isinstance(t.comparators[0], ast.Constant):
                parts.append(f"Definition {meth}_min_points : Z := ({t.comparators[0].value})%Z.")
        lst = ";\n  ".join(f'("{c}"%string, "{e}"%string)' for c, e in items)
        parts.append(f"Definition {meth}_raise_conditions : list (string * string) :=\n [{lst}].")
    bpt = ast.parse(open(os.path.join(SRC, "blueprint.py")).read())
    builder = find_function(bpt, ["_subelementBuilder"])
    mins = [nd.test.comparators[0].value for nd in ast.walk(builder)
            if isinstance(nd, ast.If) and isinstance(nd.test, ast.Compare) and ast.unparse(nd.test.left) == "int_dur"
            and isinstance(nd.test.ops[0], ast.Lt) and isinstance(nd.test.comparators[0], ast.Constant)
            and any(isinstance(b, ast.Raise) for b in nd.body)]
    if len(mins) != 1:
        raise Unsupported(f"_subelementBuilder: expected exactly one `if int_dur < k: raise`, found {mins}")
    parts.append(f"(* blueprint._subelementBuilder: `if int_dur < k: raise SegmentDurationError` *)\nDefinition forge_min_points : Z := ({mins[0]})%Z.")
    return "\n\n".join(parts) + "\n"


def main(argv):
    os.makedirs(OUT, exist_ok=True)
    jobs = {"PulseAtomsGen.v": gen_pulseatoms, "RipassoGen.v": gen_ripasso, "OutputGuardsGen.v": gen_guards}
    status = 0
    for fname, gen in jobs.items():
        try:
            text = gen()
        except (Unsupported, SyntaxError, KeyError) as e:
            print(f"TRANSLATION-FAILED {fname}: {e}")
            text = f"(* translation failed (fail closed): {str(e)[:300]} *)\nDefinition translation_failed : False := I.\n"
            status = 3
        path = os.path.join(OUT, fname)
        old = open(path).read() if os.path.exists(path) else None
        if old != text:
            open(path, "w").write(text)
    return status


if __name__ == "__main__":
    sys.exit(main(sys.argv[1:]))
