#!/bin/bash
# usage: seedtest.sh <Cnn> <k> [extra check ids...]   confirms mutant k of property Cnn in its scratch worktree
# (suite still passes, demo fails with / passes without), then applies it to /repo, runs ./check, and reverts.
id=$1; k=$2; shift 2
MD=${MUT_DIR:-/tmp/mut}; wt=$MD/$id; out=$MD/${id}_out
diff=$out/m$k.diff; demo=$out/m${k}_demo.py
[ -f "$diff" ] || { echo "$id m$k: no diff"; exit 0; }
git -C $wt checkout -q -- . ; git -C $wt clean -fdq
py() { (cd $wt && PYTHONPATH=$wt/src timeout 600 /venv/bin/python "$@"); }
py $demo >/dev/null 2>&1; base=$?
git -C $wt apply $diff || { echo "$id m$k: diff does not apply"; exit 0; }
py $demo >/dev/null 2>&1; mut=$?
suite=$(py -m pytest -q -p no:cacheprovider -o addopts="" --deselect tests/test_element.py::test_invalid_durations --deselect tests/test_element.py::test_points 2>&1 | tail -1)
git -C $wt checkout -q -- . ; git -C $wt clean -fdq
echo "$id m$k: demo unchanged=$base mutant=$mut suite='$suite'"
cd /verif
git -C /repo apply $diff || { echo "  does not apply to /repo"; exit 0; }
for c in $id "$@"; do
  res=$(VERIF_NOSHRINK=1 timeout 1500 ./check $c 2>&1 | grep -v KNOWN-FINDING); rc=$?
  echo "  check $c: $(echo "$res" | grep -c VIOLATION) violation line(s); $(echo "$res" | grep -A1 VIOLATION | head -2 | tail -1 | cut -c1-220)"
  echo "$res" | grep -q "no-failing-input-found" && echo "    (includes no-failing-input-found)"
  [ -z "$(echo "$res" | grep VIOLATION)" ] && echo "    $(echo "$res" | tail -1 | cut -c1-160)"
done
git -C /repo checkout -q -- .
